From Coq Require Import NArith List Bool Lia.
Import ListNotations.
From EIO Require Import Util Strings Static.
Open Scope N_scope.

Lemma lookup_e_In k m e : lookup_e k m = Some e -> In (k, e) m.
Proof.
  induction m as [|[k' e'] r IH]; cbn; [discriminate|].
  destruct (eqbl k k') eqn:E; [|intros H; right; apply IH; exact H].
  intros H. injection H as <-. apply eqbl_eq in E. subst. left. reflexivity.
Qed.

(* every mapping found by the loop is a configured one *)
Lemma find_map_In fuel : forall path extra m e x, find_map fuel path extra m = Some (e, x) -> exists k, In (k, e) m.
Proof.
  induction fuel as [|f IH]; intros path extra m e x H; cbn [find_map] in H; [discriminate|].
  destruct path as [|c p]; [discriminate|].
  destruct (rpartition (c :: p)) as [p' last].
  destruct (lookup_e p' m) as [e1|] eqn:L1.
  - injection H as <- _. eexists. apply lookup_e_In. exact L1.
  - destruct (lookup_e (p' ++ [SLASH]) m) as [e2|] eqn:L2.
    + injection H as <- _. eexists. apply lookup_e_In. exact L2.
    + eapply IH. exact H.
Qed.

(* containment: the file served is the mapped file, or the mapped name followed by a remainder of the request path
   that has no '..' segment (plus, for a directory, the configured index file) *)
Theorem contained path m fn ct : get_static_file path m = Some (fn, ct) ->
  exists k e extra idx, In (k, e) m /\ has_dotdot extra = false /\
    fn = efile e ++ (if ends_slash (efile e) && starts_slash extra then tl extra else extra) ++ idx /\
    (idx = [] \/ (exists d, lookup_e [] m = Some d /\ idx = efile d) \/ (lookup_e [] m = None /\ idx = index_html)) /\
    (lookup_e path m = Some e -> extra = []).
Proof.
  unfold get_static_file. intros H.
  destruct (lookup_e path m) as [e0|] eqn:L0.
  - (* exact key *)
    destruct (negb (truthy_entry e0) || has_dotdot []) eqn:G; [discriminate|].
    set (extra1 := if ends_slash (efile e0) && starts_slash [] then tl [] else []) in *.
    destruct (ends_slash (efile e0 ++ extra1)) eqn:ES.
    + destruct (lookup_e [] m) as [d|] eqn:LD; injection H as <- _.
      * exists path, e0, [], (efile d). repeat split; auto using lookup_e_In.
        -- rewrite <- app_assoc. reflexivity.
        -- right. left. exists d. auto.
      * exists path, e0, [], index_html. repeat split; auto using lookup_e_In.
        rewrite <- app_assoc. reflexivity.
    + injection H as <- _. exists path, e0, [], []. repeat split; auto using lookup_e_In. rewrite app_nil_r. reflexivity.
  - destruct (find_map (length path) path [] m) as [[e extra]|] eqn:F; [|discriminate].
    destruct (find_map_In _ _ _ _ _ _ F) as [k Hk].
    destruct (negb (truthy_entry e) || has_dotdot extra) eqn:G; [discriminate|].
    apply orb_false_elim in G. destruct G as [_ G].
    destruct (ends_slash (efile e ++ (if ends_slash (efile e) && starts_slash extra then tl extra else extra))) eqn:ES.
    + destruct (lookup_e [] m) as [d|] eqn:LD; injection H as <- _.
      * exists k, e, extra, (efile d). repeat split; auto; try discriminate.
        -- rewrite <- app_assoc. reflexivity.
        -- right. left. exists d. auto.
      * exists k, e, extra, index_html. repeat split; auto; try discriminate.
        rewrite <- app_assoc. reflexivity.
    + injection H as <- _. exists k, e, extra, []. repeat split; auto; try discriminate. rewrite app_nil_r. reflexivity.
Qed.

(* content type: the mapping's own, else (for a directory index) the default-file entry's, else by extension *)
Theorem content_type path m fn ct : get_static_file path m = Some (fn, ct) ->
  (exists k e, In (k, e) m /\ ectype e = Some ct) \/ ct = ctype_of_ext (ext_of fn).
Proof.
  unfold get_static_file. intros H.
  destruct (match lookup_e path m with Some e => Some (e, []) | None => find_map (length path) path [] m end) as [[e extra]|] eqn:F; [|discriminate].
  assert (IN : exists k, In (k, e) m).
  { destruct (lookup_e path m) as [e0|] eqn:L0.
    - injection F as <- _. eexists. apply lookup_e_In. exact L0.
    - eapply find_map_In. exact F. }
  destruct IN as [k Hk].
  destruct (negb (truthy_entry e) || has_dotdot extra); [discriminate|].
  destruct (ends_slash _).
  - destruct (lookup_e [] m) as [d|] eqn:LD.
    + destruct (ectype d) as [c|] eqn:CD.
      * injection H as <- <-. left. exists [], d. split; [apply lookup_e_In; exact LD | exact CD].
      * destruct (ectype e) as [c|] eqn:CE; injection H as <- <-; [left; exists k, e; auto | right; reflexivity].
    + destruct (ectype e) as [c|] eqn:CE; injection H as <- <-; [left; exists k, e; auto | right; reflexivity].
  - destruct (ectype e) as [c|] eqn:CE; injection H as <- <-; [left; exists k, e; auto | right; reflexivity].
Qed.

Section Route.
  Variable exists_ : text -> bool.

  Theorem route_wsgi_spec ep m other path :
    route_wsgi exists_ ep m other path =
      if is_prefix (norm_endpoint ep) path then Engine
      else match (match m with [] => None | _ => get_static_file path m end) with
           | Some (fn, ct) => if exists_ fn then File fn ct else if other then Other else NotFound
           | None => if other then Other else NotFound
           end.
  Proof. reflexivity. Qed.

  Theorem engine_iff_wsgi ep m other path :
    route_wsgi exists_ ep m other path = Engine <-> is_prefix (norm_endpoint ep) path = true.
  Proof.
    unfold route_wsgi, static_or_other. destruct (is_prefix (norm_endpoint ep) path); [split; auto|].
    split; [|discriminate].
    destruct (match m with [] => None | _ => get_static_file path m end) as [[fn ct]|];
      [destruct (exists_ fn)|]; destruct other; discriminate.
  Qed.

  Theorem engine_iff_asgi ep m other http path :
    route_asgi exists_ (Some ep) m other http path = Engine <->
    is_prefix (norm_endpoint ep) (if ends_slash path then path else path ++ [SLASH]) = true.
  Proof.
    unfold route_asgi, static_or_other. destruct (is_prefix (norm_endpoint ep) _); [split; auto|].
    split; [|discriminate]. destruct http.
    - destruct (match m with [] => None | _ => get_static_file path m end) as [[fn ct]|];
        [destruct (exists_ fn)|]; destruct other; discriminate.
    - destruct other; discriminate.
  Qed.

  (* a file is served only if it is the result of the static mapping and exists; then containment applies *)
  Theorem file_served_wsgi ep m other path fn ct : route_wsgi exists_ ep m other path = File fn ct ->
    get_static_file path m = Some (fn, ct) /\ exists_ fn = true /\ is_prefix (norm_endpoint ep) path = false.
  Proof.
    unfold route_wsgi, static_or_other. destruct (is_prefix (norm_endpoint ep) path); [discriminate|].
    destruct m as [|x m']; [destruct other; discriminate|].
    destruct (get_static_file path (x :: m')) as [[fn' ct']|]; [|destruct other; discriminate].
    destruct (exists_ fn') eqn:E; [|destruct other; discriminate].
    intros H. injection H as <- <-. auto.
  Qed.
  Theorem file_served_asgi ep m other http path fn ct : route_asgi exists_ ep m other http path = File fn ct ->
    get_static_file path m = Some (fn, ct) /\ exists_ fn = true /\ http = true.
  Proof.
    unfold route_asgi, static_or_other. destruct ep as [ep|]; [|discriminate].
    destruct (is_prefix (norm_endpoint ep) _); [discriminate|]. destruct http; [|destruct other; discriminate].
    destruct m as [|x m']; [destruct other; discriminate|].
    destruct (get_static_file path (x :: m')) as [[fn' ct']|]; [|destruct other; discriminate].
    destruct (exists_ fn') eqn:E; [|destruct other; discriminate].
    intros H. injection H as <- <-. auto.
  Qed.
End Route.

(* lifespan: startup answered complete (or failed, and then nothing more); shutdown answered and the loop ends;
   with a wrapped app and no callbacks everything is delegated *)
Theorem lifespan_spec other s t evs :
  (other = true /\ s = None /\ t = None -> lifespan other s t evs = [Delegated]) /\
  (~ (other = true /\ s = None /\ t = None) -> lifespan other s t evs = lifespan_loop s t evs).
Proof.
  split.
  - intros (-> & -> & ->). reflexivity.
  - intros H. unfold lifespan. destruct other, s, t; try reflexivity. exfalso. apply H. auto.
Qed.
Theorem lifespan_startup s t r : lifespan_loop s t (LStartup :: r) =
  match s with Some false => [StartupFailed] | _ => StartupComplete :: lifespan_loop s t r end.
Proof. reflexivity. Qed.
Theorem lifespan_shutdown s t r : lifespan_loop s t (LShutdown :: r) =
  match t with Some false => [ShutdownFailed] | _ => [ShutdownComplete] end.
Proof. reflexivity. Qed.
