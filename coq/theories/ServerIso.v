(* C16 / C03: sessions are isolated.  A step that runs on behalf of one session - its long poll, its WebSocket handler and writer, its
   heartbeat, a handler of one of its messages, a request or an application call that names it - never touches the record (queue,
   flags, user data, counters) of any other session. *)
From Coq Require Import ZArith NArith List Bool Lia.
Import ListNotations.
From EIO Require Import Server ServerInv ServerUpg ServerHb.
Open Scope N_scope.

Definition FI (i : sid) (K : sid -> sess) (s : st) : Prop := forall j, j <> i -> cur j s = K j.
Definition htI {A} (i : sid) (K : sid -> sess) (m : M A) (Q : A -> Prop) : Prop :=
  forall s, FI i K s -> FI i K (stof (m s)) /\ Q (valof (m s)).

Lemma htI_bind {A B} i K (m : M A) (f : A -> M B) Q R : htI i K m Q -> (forall a, Q a -> htI i K (f a) R) -> htI i K (bind m f) R.
Proof.
  intros Hm Hf s F. destruct (Hm s F) as [F1 Q1]. unfold bind, stof, valof in *. destruct (m s) as [[a s1] o1]. cbn [fst snd] in *.
  destruct (Hf a Q1 s1 F1) as [F2 R2]. unfold stof, valof in *. destruct (f a s1) as [[b s2] o2]. cbn [fst snd] in *. auto.
Qed.
Lemma htI_ret {A} i K (a : A) (Q : A -> Prop) : Q a -> htI i K (ret a) Q.
Proof. intros H s F. cbn. auto. Qed.
Lemma htI_same {A} i K (m : M A) : (forall s, store (stof (m s)) = store s) -> htI i K m TT.
Proof. intros H s F. split; [|exact I]. intros j N. unfold cur. rewrite H. apply F, N. Qed.
Lemma htI_getst i K : htI i K getst TT.  Proof. apply htI_same. reflexivity. Qed.
Lemma htI_emit i K o : htI i K (emit o) TT.  Proof. apply htI_same. reflexivity. Qed.
Lemma htI_gsess i K j : htI i K (gsess j) TT.  Proof. apply htI_same. reflexivity. Qed.
Lemma htI_psess i K x : htI i K (psess i x) TT.
Proof. intros s F. split; [|exact I]. intros j N. rewrite cur_psess_other by exact N. apply F, N. Qed.
Lemma htI_upd i K f : htI i K (upd i f) TT.
Proof. unfold upd. eapply htI_bind; [apply htI_gsess|]. intros ss _. apply htI_psess. Qed.
Lemma htI_wake i K t : htI i K (wake t) TT.
Proof. apply htI_same. intros s. unfold wake, modst, stof. cbn. destruct (alookup t (tasks s)); [destruct (nmem t (runq s))|]; reflexivity. Qed.
Lemma htI_wake_all i K l : htI i K (wake_all l) TT.
Proof. induction l as [|t r IH]; cbn [wake_all]; [apply htI_ret; exact I|]. eapply htI_bind; [apply htI_wake | intros ? _; exact IH]. Qed.
Lemma htI_new_timer i K dt : htI i K (new_timer dt) TT.  Proof. apply htI_same. reflexivity. Qed.
Lemma htI_alive i K t : htI i K (alive t) TT.  Proof. apply htI_same. reflexivity. Qed.
Lemma htI_has_sess i K j : htI i K (has_sess j) TT.  Proof. apply htI_same. reflexivity. Qed.
Lemma htI_gconn i K c : htI i K (gconn c) TT.  Proof. apply htI_same. reflexivity. Qed.
Lemma htI_pconn i K c x : htI i K (pconn c x) TT.  Proof. apply htI_same. reflexivity. Qed.
Lemma htI_in_table i K j : htI i K (in_table j) TT.  Proof. apply htI_same. reflexivity. Qed.
Lemma htI_del_table i K j : htI i K (del_table j) TT.  Proof. apply htI_same. reflexivity. Qed.
Lemma htI_del_tables i K l : htI i K (del_tables l) TT.
Proof. induction l as [|j r IH]; cbn [del_tables]; [apply htI_ret; exact I|]. eapply htI_bind; [apply htI_del_table | intros ? _; exact IH]. Qed.
Lemma htI_modst_same i K f : (forall s, store (f s) = store s) -> htI i K (modst f) TT.
Proof. intros H. apply htI_same. intros s. cbn. apply H. Qed.
Lemma htI_block i K t k : htI i K (block t k) TT.  Proof. apply htI_same. reflexivity. Qed.
Lemma htI_finish i K t : htI i K (finish t) TT.
Proof. unfold finish. eapply htI_bind; [apply htI_getst|]. intros s0 _. eapply htI_bind with (Q := TT); [apply htI_modst_same; reflexivity | intros ? _; apply htI_wake_all]. Qed.
Lemma htI_spawn i K k : htI i K (spawn k) TT.  Proof. apply htI_same. reflexivity. Qed.

Create HintDb fi discriminated.
#[export] Hint Resolve htI_getst htI_emit htI_wake htI_wake_all htI_new_timer htI_alive htI_has_sess htI_gconn htI_pconn htI_in_table
  htI_del_table htI_del_tables htI_block htI_finish htI_spawn htI_gsess htI_psess htI_upd : fi.
Ltac fi_step :=
  match goal with
  | |- htI _ _ (ret _) _ => apply htI_ret; exact I
  | |- htI _ _ (bind _ _) _ => eapply htI_bind with (Q := TT); [|intros ? _]
  | |- htI _ _ (modst _) _ => apply htI_modst_same; intros ?; reflexivity
  | |- htI _ _ (if ?b then _ else _) _ => destruct b
  | |- htI _ _ (match ?x with _ => _ end) _ => destruct x
  | _ => solve [eauto with fi]
  end.
Ltac fi_go := repeat fi_step.

Lemma fi_q_put K i x : htI i K (q_put i x) TT.  Proof. unfold q_put. fi_go. Qed.
Lemma fi_q_task_done K i : htI i K (q_task_done i) TT.  Proof. unfold q_task_done. fi_go. Qed.
#[export] Hint Resolve fi_q_put fi_q_task_done : fi.
Lemma fi_drain K fuel : forall i acc, htI i K (drain fuel i acc) TT.
Proof. induction fuel as [|n IH]; intros i acc; cbn [drain]; fi_go; try apply IH. Qed.
#[export] Hint Resolve fi_drain : fi.

Section WithCfg.
Variable cfg : config.

Lemma fi_close_nowait K i ab r : htI i K (close_nowait cfg i ab r) TT.
Proof. unfold close_nowait, begin_close. fi_go. Qed.
Hint Resolve fi_close_nowait : fi.
Lemma fi_sock_send K i p : htI i K (sock_send cfg i p) TT.  Proof. unfold sock_send. fi_go. Qed.
Lemma fi_get_socket K i : htI i K (get_socket i) TT.  Proof. unfold get_socket. fi_go. Qed.
Hint Resolve fi_sock_send fi_get_socket : fi.
Lemma fi_srv_send K i m : htI i K (srv_send cfg i m) TT.  Proof. unfold srv_send. fi_go. Qed.
Lemma fi_close_wait K i r : htI i K (close_wait cfg i r) TT.  Proof. unfold close_wait. fi_go. Qed.
Hint Resolve fi_srv_send fi_close_wait : fi.
Lemma fi_run_handler (me : tid) K bg i payload a : htI i K (run_handler cfg me bg i payload a) TT.
Proof. unfold run_handler. fi_go. Qed.
Lemma fi_run_handler_fg K m' i payload a : htI i K (run_handler cfg m' false i payload a) TT.
Proof. unfold run_handler. fi_go. Qed.
Hint Resolve fi_run_handler fi_run_handler_fg : fi.
Lemma fi_receive K i p : htI i K (receive cfg i p) TT.
Proof. unfold receive. fi_go. Qed.
Lemma fi_receive_all K i l : htI i K (receive_all cfg i l) TT.
Proof. induction l as [|p r IH]; cbn [receive_all]; fi_go; try apply fi_receive; try exact IH. Qed.
Lemma fi_refuse_and_end K i : htI i K (refuse_and_end cfg i) TT.  Proof. unfold refuse_and_end. fi_go. Qed.
Lemma fi_reap_if_closed K i : htI i K (reap_if_closed i) TT.  Proof. unfold reap_if_closed. fi_go. Qed.
Hint Resolve fi_receive fi_receive_all fi_refuse_and_end fi_reap_if_closed : fi.

Lemma fi_poll_attempt (me : tid) K tout i k t : htI i K (poll_attempt cfg me tout i k t) TT.
Proof.
  unfold poll_attempt.
  change (modst (fun s => set_tasks (aset me {| t_task := TPoll i k t; t_tout := false |} (tasks s)) s)) with (block me (TPoll i k t)).
  eapply htI_bind; [apply htI_gsess|]. intros ss Hs.
  destruct (if tout && q_timeout_wins (c_quirks cfg) then [] else s_q ss) as [|x r]; fi_go.
Qed.
Hint Resolve fi_poll_attempt : fi.
Lemma fi_poll_start (me : tid) K i k : htI i K (poll_start cfg me i k) TT.  Proof. unfold poll_start. fi_go. Qed.
Hint Resolve fi_poll_start : fi.
Lemma fi_ws_send_all K i c l : htI i K (ws_send_all c l) TT.
Proof. induction l as [|p r IH]; cbn [ws_send_all]; fi_go; try exact IH. Qed.
Lemma fi_ws_close K i c : htI i K (ws_close c) TT.  Proof. unfold ws_close. fi_go. Qed.
Hint Resolve fi_ws_send_all fi_ws_close : fi.
Lemma fi_writer_exit (me : tid) K i c : htI i K (writer_exit me c) TT.  Proof. unfold writer_exit. fi_go. Qed.
Hint Resolve fi_writer_exit : fi.
Lemma fi_writer_loop (me : tid) K fuel : forall i c rd first, htI i K (writer_loop cfg fuel me i c rd first) TT.
Proof. induction fuel as [|n IH]; intros i c rd first; destruct first as [| |[|p l]]; cbn [writer_loop]; fi_go; try apply IH. Qed.
Lemma fi_finish_get (me : tid) K i r p : htI i K (finish_get cfg me i r p) TT.  Proof. unfold finish_get. fi_go. Qed.
Lemma fi_ping_fire (me : tid) K i : htI i K (ping_fire cfg me i) TT.  Proof. unfold ping_fire. fi_go. Qed.
Lemma fi_check_ping_timeout K i : htI i K (check_ping_timeout cfg i) TT.  Proof. unfold check_ping_timeout. fi_go. Qed.
Hint Resolve fi_writer_loop fi_finish_get fi_ping_fire fi_check_ping_timeout : fi.
Lemma fi_ws_take K i c : htI i K (ws_take c) TT.  Proof. unfold ws_take. fi_go. Qed.
Lemma fi_ws_block (me : tid) K i c k : htI i K (ws_block me c k) TT.  Proof. unfold ws_block. fi_go. Qed.
Hint Resolve fi_ws_take fi_ws_block : fi.
Lemma fi_ws_request_done (me : tid) K i r x : htI i K (ws_request_done me i r x) TT.  Proof. unfold ws_request_done. fi_go. Qed.
Hint Resolve fi_ws_request_done : fi.
Lemma fi_ws_epilogue_end (me : tid) K i r : htI i K (ws_epilogue_end cfg me i r) TT.  Proof. unfold ws_epilogue_end. fi_go. Qed.
Hint Resolve fi_ws_epilogue_end : fi.
Lemma fi_ws_epilogue (me : tid) K i r c w fresh : htI i K (ws_epilogue cfg me i r c w fresh) TT.  Proof. unfold ws_epilogue. fi_go. Qed.
Hint Resolve fi_ws_epilogue : fi.
Lemma fi_ws_read_loop (me : tid) K fuel : forall i r c w fresh, htI i K (ws_read_loop cfg fuel me i r c w fresh) TT.
Proof. induction fuel as [|n IH]; intros i r c w fresh; cbn [ws_read_loop]; fi_go; try apply IH. Qed.
Hint Resolve fi_ws_read_loop : fi.
Lemma fi_ws_steady (me : tid) K i r c fresh : htI i K (ws_steady cfg me i r c fresh) TT.  Proof. unfold ws_steady. fi_go. Qed.
Lemma fi_upgrade_fail (me : tid) K i r x : htI i K (upgrade_fail me i r x) TT.  Proof. unfold upgrade_fail. fi_go. Qed.
Hint Resolve fi_ws_steady fi_upgrade_fail : fi.
Lemma fi_ws_upgr (me : tid) K i r c : htI i K (ws_upgr cfg me i r c) TT.  Proof. unfold ws_upgr. fi_go. Qed.
Hint Resolve fi_ws_upgr : fi.
Lemma fi_ws_probe (me : tid) K i r c : htI i K (ws_probe cfg me i r c) TT.  Proof. unfold ws_probe. fi_go. Qed.
Hint Resolve fi_ws_probe : fi.
Lemma fi_answer (me : tid) K i r x : htI i K (answer me r x) TT.  Proof. unfold answer. fi_go. Qed.
Hint Resolve fi_answer : fi.
Lemma fi_ws_begin (me : tid) K i r c : htI i K (ws_begin cfg me i r c) TT.  Proof. unfold ws_begin. fi_go. Qed.
Hint Resolve fi_ws_begin : fi.

Definition session_of (k : task) : option sid :=
  match k with
  | TPoll i _ _ | TWriterStart i _ _ | TWsProbe _ i _ | TWsUpgr _ i _ | TWsRead _ i _ _ _ _ | TWsJoinW _ i _ _ _
  | TPingStart i | TPing i _ | THandler i _ _ | TCloseOne i _ => Some i
  | TJoin i (JApiSeq _ _) => None
  | TJoin i _ => Some i
  | _ => None
  end.
Lemma fi_run_task me K e i : session_of (t_task e) = Some i -> htI i K (run_task cfg me e) TT.
Proof.
  intros S. unfold run_task.
  destruct (t_task e) as [i0 [r|c rd] t | i0 c rd | r i0 c | r i0 c | r i0 c w t fresh | r i0 c w fresh | i0 k | i0 | i0 t | | t | rest iv t | i0 payload a | i0 parent | a pend sids];
    try discriminate; try (destruct k; try discriminate); injection S as ->; fi_go.
Qed.

(* the requests and application calls that name one session *)
Definition decision_session (d : decision) : option sid :=
  match d with DUpgrade i | DNoop i | DPoll i | DPost i => Some i | _ => None end.
Lemma fi_decided me K r q v i : decision_session (decide cfg q v) = Some i ->
  htI i K (match decide cfg q v with
           | DRefuse x => answer me r x
           | DOptions => answer me r R200ok
           | DConnect => handle_connect cfg me r q
           | DUpgrade i => match r_conn q with Some c => ws_begin cfg me i r c | None => emit OUnsupported end
           | DNoop i => emit (OResp r (R200 [SNoop])) ;;; reap_if_closed i ;;; finish me
           | DPoll i => p <- poll_start cfg me i (PKGet r) ;; finish_get cfg me i r p
           | DPost i =>
             match r_body q with
             | BTooLong => refuse_and_end cfg i ;;; answer me r R400
             | BUndecodable => answer me r R200ok
             | BPackets l =>
               ok2 <- receive_all cfg i l ;;
               if ok2 then answer me r R200ok else (refuse_and_end cfg i ;;; answer me r R400)
             end
           end) TT.
Proof. destruct (decide cfg q v); cbn; intros S; try discriminate; injection S as ->; unfold answer; fi_go. Qed.

Definition api_session (x : api) : option sid :=
  match x with
  | ApiSend (SKnown i) _ | ApiDisconnect (Some (SKnown i)) | ApiTransport (SKnown i) | ApiGetSession (SKnown i) | ApiSaveSession (SKnown i) _ => Some i
  | _ => None
  end.
Lemma fi_run_api me K a x i : api_session x = Some i -> htI i K (run_api cfg me a x) TT.
Proof. destruct x as [[j|] m|[[j|]|]|[j|]|[j|]|[j|] u]; cbn; intros S; try discriminate; injection S as ->; fi_go. Qed.

Lemma FI_start i s : FI i (fun j => cur j s) s.  Proof. intros j _. reflexivity. Qed.

(* a task of session i: its long poll, its WebSocket handler and writer, its heartbeat, a handler of one of its messages, a close of it *)
Theorem task_isolated me e i s : session_of (t_task e) = Some i ->
  forall j, j <> i -> cur j (stof (run_task cfg me e s)) = cur j s.
Proof. intros S j N. exact (proj1 (fi_run_task me _ e i S s (FI_start i s)) j N). Qed.

(* a request that names session i (poll, post, upgrade), whatever it carries and whatever the handlers of its messages do *)
Theorem request_isolated me r q i s :
  decision_session (decide cfg q (valof (lookup_view cfg q s))) = Some i ->
  forall j, j <> i -> cur j (stof (handle_request cfg me r q s)) = cur j s.
Proof.
  intros S j N. unfold handle_request. rewrite stof_bind.
  destruct (sm_lookup_view cfg q s) as (E1 & _).
  assert (C1 : cur j (stof (lookup_view cfg q s)) = cur j s) by (unfold cur; rewrite E1; reflexivity).
  rewrite <- C1. exact (proj1 (fi_decided me _ r q _ i S _ (FI_start i _)) j N).
Qed.

(* send / disconnect(sid) / transport / get_session / save_session for session i *)
Theorem api_isolated me a x i s : api_session x = Some i ->
  forall j, j <> i -> cur j (stof (run_api cfg me a x s)) = cur j s.
Proof. intros S j N. exact (proj1 (fi_run_api me _ a x i S s (FI_start i s)) j N). Qed.
End WithCfg.

(* C12: a refused request has no effect at all - every session record (queue, transport flags, liveness, user data) is exactly as
   before, no session is created, and the table can only have lost an entry that was already closed *)
Theorem refused_no_effect cfg me r q s x : decide cfg q (valof (lookup_view cfg q s)) = DRefuse x ->
  store (stof (handle_request cfg me r q s)) = store s /\ nsid (stof (handle_request cfg me r q s)) = nsid s /\
  (forall i, nmem i (table (stof (handle_request cfg me r q s))) = true -> nmem i (table s) = true).
Proof.
  intros D. unfold handle_request. rewrite stof_bind, D. destruct (sm_lookup_view cfg q s) as (E1 & _ & _ & E4 & E5).
  assert (W : forall l z1, store (stof (wake_all l z1)) = store z1 /\ nsid (stof (wake_all l z1)) = nsid z1 /\ table (stof (wake_all l z1)) = table z1).
  { induction l as [|t l IH]; intros z1; cbn [wake_all]; [auto|]. rewrite stof_bind. destruct (IH (stof (wake t z1))) as (H1 & H2 & H3). rewrite H1, H2, H3.
    unfold wake, modst, stof. cbn. destruct (alookup t (tasks z1)); [destruct (nmem t (runq z1))|]; auto. }
  assert (A : forall z, store (stof (answer me r x z)) = store z /\ nsid (stof (answer me r x z)) = nsid z /\ table (stof (answer me r x z)) = table z).
  { intros z. unfold answer. rewrite stof_bind. change (stof (emit (OResp r x) z)) with z. unfold finish. rewrite stof_getst_bind, stof_bind.
    destruct (W (flat_map (fun e => match waiter_of me e with Some w => [w] | None => [] end) (tasks z)) (stof (modst (fun s0 => set_tasks (adel me (tasks s0)) s0) z))) as (H1 & H2 & H3).
    rewrite H1, H2, H3. cbn. auto. }
  destruct (A (stof (lookup_view cfg q s))) as (A1 & A2 & A3). rewrite A1, A2, A3. split; [exact E1 | split; [exact E4 | exact E5]].
Qed.
