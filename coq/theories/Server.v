(* The Engine.IO server as a cooperative task system: socket.py / async_socket.py (poll, send, receive, close,
   heartbeat, WebSocket handler) and the session-level part of server.py / async_server.py (handle_request after the
   origin gate, _handle_connect, send, disconnect, *_session, _service_task), on the runtime of DESIGN Appendix B:
   a FIFO run queue, timers ordered by (deadline, creation), queues with getter/joiner lists.

   One model for both servers; the places where they are written differently are the fields of `quirks`.
   Packets are abstract here (the codec is Packet.v / Payload.v): a message is its ghost id. *)
From Coq Require Import ZArith NArith List Bool.
Import ListNotations.
Open Scope Z_scope.

Definition sid := N.  Definition rid := N.  Definition cid := N.  Definition tid := N.  Definition aid := N.

(* ---- packets ---- *)
Inductive spkt := SOpen | SClose | SPing | SNoop | SMsg (m : N).          (* server -> client *)
Inductive qitem := QP (p : spkt) | QNone.                                  (* QNone: the end marker close() enqueues *)
Inductive hact := HNone | HRaise | HSend | HDisc.                          (* what the application's message handler does *)
Inductive cpkt := CMsg (payload : N) (a : hact) | CPong | CClose | CUpgrade | CBad.   (* CBad: types 0, 2, 6, 7, 8, 9 *)
Inductive body := BPackets (l : list cpkt) | BUndecodable | BTooLong.
Inductive frame := FPing (probe : bool) | FPk (p : cpkt) | FUndec | FOver.

Inductive reason := RServer | RClient | RPingTimeout | RTransportClose | RTransportError.
Inductive ev := EConnect | EMessage (payload : N) | EDisconnect (r : reason).
Inductive couts := CoAccept | CoAcceptSend (m : N) | CoReject (truthy : bool) | CoRaise.

(* ---- configuration ---- *)
Record quirks := {
  q_sentinel : bool;        (* close() enqueues the None end marker (threaded) *)
  q_read_timeout : bool;    (* the WebSocket reader gives up ping_interval + ping_timeout after it started waiting (asyncio) *)
  q_concurrent_disc : bool; (* disconnect() of all sessions closes them concurrently (asyncio) instead of one after the other *)
  q_batch_timers : bool;    (* all timers due at the same instant fire before any woken task runs (asyncio's loop iteration) *)
  q_timeout_wins : bool     (* a blocked get whose timeout has fired never takes an item, even if one arrived meanwhile
                               (asyncio.wait_for cancels the getter); queue.Queue / SimQueue re-check the queue first *)
}.
Record config := {
  c_interval : Z; c_timeout : Z;             (* ping_interval, ping_timeout in ticks *)
  c_async_handlers : bool; c_monitor : bool;
  c_allow_upgrades : bool; c_polling : bool; c_websocket : bool;    (* transports *)
  c_quirks : quirks }.

(* ---- requests, already parsed (the admission decision itself is part of the model) ---- *)
Inductive meth := MGet | MPost | MOptions | MOther.
Inductive transport := TrPolling | TrWebsocket | TrOther.
Inductive sidref := SKnown (s : sid) | SUnknown.
Inductive jq := JAbsent | JBad | JOk.
Record req := {
  r_method : meth; r_transport : transport; r_sid : option sidref; r_eio4 : bool; r_jsonp : jq;
  r_upgrade_ws : bool;          (* Upgrade header is 'websocket' *)
  r_conn_upgrade : bool;        (* Connection header lists 'upgrade' *)
  r_origin_refused : bool;      (* verdict of the origin gate, Cors.gate_refuses *)
  r_conn : option cid;          (* the WebSocket connection that comes with an upgrade request *)
  r_body : body; r_connect : couts }.

Inductive resp := R200 (pkts : list spkt) | R200ok | R400 | R401 (truthy : bool) | R405 | RRaised | RWsDone | RMalformed.
Inductive wsout := WPk (p : spkt) | WPongProbe.
Inductive apiret := ARet | AKeyError | ATransport (ws : bool) | ASession (u : N).
Inductive out :=
| OResp (r : rid) (x : resp)
| OWsAccept (c : cid) | OWsSend (c : cid) (w : wsout) | OWsClose (c : cid)
| OEvent (s : sid) (e : ev)
| OApi (a : aid) (x : apiret)
| ONewSession (r : rid) (s : sid)
| OUnsupported                              (* a combination the model does not cover (disconnect from a synchronous handler) *)
| OTie                                      (* several timers fell due at the same instant (reported under q_batch_timers only) *)
| OOutOfFuel.

(* ---- state ---- *)
Record sess := {
  s_q : list qitem; s_unfin : nat; s_getters : list tid; s_joiners : list tid;
  s_lastp : option Z;
  s_connected : bool; s_upgrading : bool; s_upgraded : bool; s_closing : bool; s_closed : bool;
  s_udata : N;
  (* ghosts *)
  s_accepted : list N; s_taken : list N }.

Record conn := { k_inbox : list frame; k_cclosed : bool; k_sclosed : bool; k_waiter : option tid }.

Inductive pollk := PKGet (r : rid) | PKWriter (c : cid) (reader : tid).
Inductive joink := JApiOne (a : aid) | JApiSeq (a : aid) (rest : list sid) | JHandler | JCloser.
Definition timer := (Z * N)%type.          (* deadline, creation number *)
Inductive task :=
| TPoll (s : sid) (k : pollk) (t : timer)
| TWriterStart (s : sid) (c : cid) (reader : tid)
| TWsProbe (r : rid) (s : sid) (c : cid)
| TWsUpgr (r : rid) (s : sid) (c : cid)
| TWsRead (r : rid) (s : sid) (c : cid) (w : tid) (t : option timer) (fresh : bool)
| TWsJoinW (r : rid) (s : sid) (c : cid) (w : tid) (fresh : bool)
| TJoin (s : sid) (k : joink)
| TPingStart (s : sid)
| TPing (s : sid) (t : timer)
| TSvcStart
| TSvcIdle (t : timer)
| TSvcVisit (rest : list sid) (interval : Z) (t : timer)
| THandler (s : sid) (payload : N) (a : hact)
| TCloseOne (s : sid) (parent : tid)
| TWaitAll (a : aid) (pending : list tid) (sids : list sid).

Record tentry := { t_task : task; t_tout : bool }.

Record st := {
  now : Z; tseq : N; ntid : N; nsid : N;
  store : list (sid * sess); table : list sid;
  tasks : list (tid * tentry); runq : list tid;
  conns : list (cid * conn);
  svc_pending : bool }.       (* start_service_task: the monitor has not been started yet *)

(* ---- small map helpers ---- *)
Fixpoint alookup {A} (k : N) (l : list (N * A)) : option A :=
  match l with [] => None | (k', v) :: r => if N.eqb k k' then Some v else alookup k r end.
Fixpoint aset {A} (k : N) (v : A) (l : list (N * A)) : list (N * A) :=
  match l with [] => [(k, v)] | (k', v') :: r => if N.eqb k k' then (k, v) :: r else (k', v') :: aset k v r end.
Fixpoint adel {A} (k : N) (l : list (N * A)) : list (N * A) :=
  match l with [] => [] | (k', v') :: r => if N.eqb k k' then r else (k', v') :: adel k r end.
Fixpoint nmem (k : N) (l : list N) : bool := match l with [] => false | x :: r => N.eqb k x || nmem k r end.
Fixpoint nrem (k : N) (l : list N) : list N := match l with [] => [] | x :: r => if N.eqb k x then r else x :: nrem k r end.

Definition new_sess : sess :=
  {| s_q := []; s_unfin := 0; s_getters := []; s_joiners := []; s_lastp := None; s_connected := false; s_upgrading := false;
     s_upgraded := false; s_closing := false; s_closed := false; s_udata := 0%N; s_accepted := []; s_taken := [] |}.
Definition new_conn : conn := {| k_inbox := []; k_cclosed := false; k_sclosed := false; k_waiter := None |}.

(* ---- the state-and-output monad ---- *)
Definition M (A : Type) := st -> A * st * list out.
Definition ret {A} (a : A) : M A := fun s => (a, s, []).
Definition bind {A B} (m : M A) (f : A -> M B) : M B :=
  fun s => let '(a, s1, o1) := m s in let '(b, s2, o2) := f a s1 in (b, s2, o1 ++ o2).
Notation "x <- m ;; k" := (bind m (fun x => k)) (at level 61, m at next level, right associativity).
Notation "m ;;; k" := (bind m (fun _ => k)) (at level 61, right associativity).
Definition emit (o : out) : M unit := fun s => (tt, s, [o]).
Definition getst : M st := fun s => (s, s, []).
Definition modst (f : st -> st) : M unit := fun s => (tt, f s, []).

Definition set_store v (s : st) := {| now := now s; tseq := tseq s; ntid := ntid s; nsid := nsid s; store := v; table := table s;
  tasks := tasks s; runq := runq s; conns := conns s; svc_pending := svc_pending s |}.
Definition set_table v (s : st) := {| now := now s; tseq := tseq s; ntid := ntid s; nsid := nsid s; store := store s; table := v;
  tasks := tasks s; runq := runq s; conns := conns s; svc_pending := svc_pending s |}.
Definition set_tasks v (s : st) := {| now := now s; tseq := tseq s; ntid := ntid s; nsid := nsid s; store := store s; table := table s;
  tasks := v; runq := runq s; conns := conns s; svc_pending := svc_pending s |}.
Definition set_runq v (s : st) := {| now := now s; tseq := tseq s; ntid := ntid s; nsid := nsid s; store := store s; table := table s;
  tasks := tasks s; runq := v; conns := conns s; svc_pending := svc_pending s |}.
Definition set_conns v (s : st) := {| now := now s; tseq := tseq s; ntid := ntid s; nsid := nsid s; store := store s; table := table s;
  tasks := tasks s; runq := runq s; conns := v; svc_pending := svc_pending s |}.
Definition set_now v (s : st) := {| now := v; tseq := tseq s; ntid := ntid s; nsid := nsid s; store := store s; table := table s;
  tasks := tasks s; runq := runq s; conns := conns s; svc_pending := svc_pending s |}.
Definition set_tseq v (s : st) := {| now := now s; tseq := v; ntid := ntid s; nsid := nsid s; store := store s; table := table s;
  tasks := tasks s; runq := runq s; conns := conns s; svc_pending := svc_pending s |}.
Definition set_ntid v (s : st) := {| now := now s; tseq := tseq s; ntid := v; nsid := nsid s; store := store s; table := table s;
  tasks := tasks s; runq := runq s; conns := conns s; svc_pending := svc_pending s |}.
Definition set_nsid v (s : st) := {| now := now s; tseq := tseq s; ntid := ntid s; nsid := v; store := store s; table := table s;
  tasks := tasks s; runq := runq s; conns := conns s; svc_pending := svc_pending s |}.
Definition set_svc v (s : st) := {| now := now s; tseq := tseq s; ntid := ntid s; nsid := nsid s; store := store s; table := table s;
  tasks := tasks s; runq := runq s; conns := conns s; svc_pending := v |}.

Definition gsess (i : sid) : M sess := fun s => (match alookup i (store s) with Some x => x | None => new_sess end, s, []).
(* sessions are created by _handle_connect only; writing to an id that was never issued is a no-op *)
Definition has_sess (i : sid) : M bool := fun s => (match alookup i (store s) with Some _ => true | None => false end, s, []).
Definition psess (i : sid) (x : sess) : M unit :=
  modst (fun s => match alookup i (store s) with Some _ => set_store (aset i x (store s)) s | None => s end).
Definition upd (i : sid) (f : sess -> sess) : M unit := x <- gsess i ;; psess i (f x).
Definition gconn (c : cid) : M conn := fun s => (match alookup c (conns s) with Some x => x | None => new_conn end, s, []).
Definition pconn (c : cid) (x : conn) : M unit := modst (fun s => set_conns (aset c x (conns s)) s).
Definition in_table (i : sid) : M bool := fun s => (nmem i (table s), s, []).
Definition del_table (i : sid) : M unit := modst (fun s => set_table (nrem i (table s)) s).
Fixpoint del_tables (l : list sid) : M unit := match l with [] => ret tt | i :: r => del_table i ;;; del_tables r end.

(* sess field setters *)
Definition w_q v (x : sess) := {| s_q := v; s_unfin := s_unfin x; s_getters := s_getters x; s_joiners := s_joiners x; s_lastp := s_lastp x;
  s_connected := s_connected x; s_upgrading := s_upgrading x; s_upgraded := s_upgraded x; s_closing := s_closing x; s_closed := s_closed x;
  s_udata := s_udata x; s_accepted := s_accepted x; s_taken := s_taken x |}.
Definition w_unfin v (x : sess) := {| s_q := s_q x; s_unfin := v; s_getters := s_getters x; s_joiners := s_joiners x; s_lastp := s_lastp x;
  s_connected := s_connected x; s_upgrading := s_upgrading x; s_upgraded := s_upgraded x; s_closing := s_closing x; s_closed := s_closed x;
  s_udata := s_udata x; s_accepted := s_accepted x; s_taken := s_taken x |}.
Definition w_getters v (x : sess) := {| s_q := s_q x; s_unfin := s_unfin x; s_getters := v; s_joiners := s_joiners x; s_lastp := s_lastp x;
  s_connected := s_connected x; s_upgrading := s_upgrading x; s_upgraded := s_upgraded x; s_closing := s_closing x; s_closed := s_closed x;
  s_udata := s_udata x; s_accepted := s_accepted x; s_taken := s_taken x |}.
Definition w_joiners v (x : sess) := {| s_q := s_q x; s_unfin := s_unfin x; s_getters := s_getters x; s_joiners := v; s_lastp := s_lastp x;
  s_connected := s_connected x; s_upgrading := s_upgrading x; s_upgraded := s_upgraded x; s_closing := s_closing x; s_closed := s_closed x;
  s_udata := s_udata x; s_accepted := s_accepted x; s_taken := s_taken x |}.
Definition w_lastp v (x : sess) := {| s_q := s_q x; s_unfin := s_unfin x; s_getters := s_getters x; s_joiners := s_joiners x; s_lastp := v;
  s_connected := s_connected x; s_upgrading := s_upgrading x; s_upgraded := s_upgraded x; s_closing := s_closing x; s_closed := s_closed x;
  s_udata := s_udata x; s_accepted := s_accepted x; s_taken := s_taken x |}.
Definition w_flags (cn ug ud cg cd : bool) (x : sess) := {| s_q := s_q x; s_unfin := s_unfin x; s_getters := s_getters x; s_joiners := s_joiners x;
  s_lastp := s_lastp x; s_connected := cn; s_upgrading := ug; s_upgraded := ud; s_closing := cg; s_closed := cd;
  s_udata := s_udata x; s_accepted := s_accepted x; s_taken := s_taken x |}.
Definition w_connected v x := w_flags v (s_upgrading x) (s_upgraded x) (s_closing x) (s_closed x) x.
Definition w_upgrading v x := w_flags (s_connected x) v (s_upgraded x) (s_closing x) (s_closed x) x.
Definition w_upgraded v x := w_flags (s_connected x) (s_upgrading x) v (s_closing x) (s_closed x) x.
Definition w_closing v x := w_flags (s_connected x) (s_upgrading x) (s_upgraded x) v (s_closed x) x.
Definition w_closed v x := w_flags (s_connected x) (s_upgrading x) (s_upgraded x) (s_closing x) v x.
Definition w_udata v (x : sess) := {| s_q := s_q x; s_unfin := s_unfin x; s_getters := s_getters x; s_joiners := s_joiners x; s_lastp := s_lastp x;
  s_connected := s_connected x; s_upgrading := s_upgrading x; s_upgraded := s_upgraded x; s_closing := s_closing x; s_closed := s_closed x;
  s_udata := v; s_accepted := s_accepted x; s_taken := s_taken x |}.
Definition w_accepted v (x : sess) := {| s_q := s_q x; s_unfin := s_unfin x; s_getters := s_getters x; s_joiners := s_joiners x; s_lastp := s_lastp x;
  s_connected := s_connected x; s_upgrading := s_upgrading x; s_upgraded := s_upgraded x; s_closing := s_closing x; s_closed := s_closed x;
  s_udata := s_udata x; s_accepted := v; s_taken := s_taken x |}.
Definition w_taken v (x : sess) := {| s_q := s_q x; s_unfin := s_unfin x; s_getters := s_getters x; s_joiners := s_joiners x; s_lastp := s_lastp x;
  s_connected := s_connected x; s_upgrading := s_upgrading x; s_upgraded := s_upgraded x; s_closing := s_closing x; s_closed := s_closed x;
  s_udata := s_udata x; s_accepted := s_accepted x; s_taken := v |}.

(* ---- scheduler primitives ---- *)
(* make a task runnable if it is blocked (i.e. registered and not already in the run queue) *)
Definition wake (t : tid) : M unit :=
  modst (fun s => match alookup t (tasks s) with
                  | Some _ => if nmem t (runq s) then s else set_runq (runq s ++ [t]) s
                  | None => s end).
Fixpoint wake_all (l : list tid) : M unit := match l with [] => ret tt | t :: r => wake t ;;; wake_all r end.

(* register a new runnable task (start_background_task / a request / an API call) *)
Definition spawn (k : task) : M tid :=
  fun s => let t := ntid s in
           (t, set_runq (runq s ++ [t]) (set_tasks (aset t {| t_task := k; t_tout := false |} (tasks s)) (set_ntid (N.succ t) s)), []).
(* the running task `me` blocks as k (its timed-out mark is cleared) *)
Definition block (me : tid) (k : task) : M unit :=
  modst (fun s => set_tasks (aset me {| t_task := k; t_tout := false |} (tasks s)) s).
(* same, keeping a fired timer mark (a getter that was woken by its timeout and re-blocks cannot happen; a woken getter that
   finds the queue empty re-blocks with its timer still live) *)
Definition new_timer (dt : Z) : M timer :=
  fun s => ((now s + dt, tseq s), set_tseq (N.succ (tseq s)) s, []).

(* a task finished: whoever joins it is woken *)
Definition waiter_of (t : tid) (e : tid * tentry) : option tid :=
  match t_task (snd e) with
  | TWsJoinW _ _ _ w _ => if N.eqb w t then Some (fst e) else None
  | TWaitAll _ pend _ => if nmem t pend then Some (fst e) else None
  | _ => None
  end.
Definition finish (me : tid) : M unit :=
  s <- getst ;;
  modst (fun s => set_tasks (adel me (tasks s)) s) ;;;
  wake_all (flat_map (fun e => match waiter_of me e with Some w => [w] | None => [] end) (tasks s)).
Definition alive (t : tid) : M bool := fun s => (match alookup t (tasks s) with Some _ => true | None => false end, s, []).

(* ---- queue primitives (SimQueue / queue.Queue / asyncio.Queue) ---- *)
Definition mids_of (l : list qitem) : list N := flat_map (fun i => match i with QP (SMsg m) => [m] | _ => [] end) l.

(* put: ghost - a message entering the queue is recorded as accepted in the same step *)
Definition q_put (i : sid) (x : qitem) : M unit :=
  ss <- gsess i ;;
  psess i (w_accepted (s_accepted ss ++ mids_of [x]) (w_unfin (S (s_unfin ss)) (w_q (s_q ss ++ [x]) ss))) ;;;
  match s_getters ss with
  | [] => ret tt
  | g :: r => upd i (w_getters r) ;;; wake g
  end.
Definition q_task_done (i : sid) : M unit :=
  ss <- gsess i ;;
  let n := pred (s_unfin ss) in
  psess i (w_unfin n ss) ;;;
  match n with
  | O => upd i (w_joiners []) ;;; wake_all (s_joiners ss)
  | _ => ret tt
  end.

(* drain after the first get: everything up to the end marker, which is put back *)
Definition MAX_BATCH : nat := 16.      (* Payload.max_decode_packets: a poll returns at most that many packets (fix of D26) *)
Fixpoint drain (fuel : nat) (i : sid) (acc : list spkt) : M (list spkt) :=
  match fuel with
  | O => ret acc
  | S f =>
    if Nat.leb MAX_BATCH (length acc) then ret acc else
    ss <- gsess i ;;
    match s_q ss with
    | [] => ret acc
    | x :: r =>
      psess i (w_taken (s_taken ss ++ mids_of [x]) (w_q r ss)) ;;; q_task_done i ;;;
      match x with
      | QNone => q_put i QNone ;;; ret acc
      | QP p => drain f i (acc ++ [p])
      end
    end
  end.

(* ---- Socket.close / send / check_ping_timeout ---- *)
Section WithConfig.
Variable cfg : config.
Let I := c_interval cfg.
Let T := c_timeout cfg.

Definition expired (ss : sess) (t : Z) : bool := match s_lastp ss with Some p => Z.gtb (t - p) T | None => false end.

(* the first half of close(): mark the session as closing and run the disconnect handler *)
Definition begin_close (i : sid) (r : reason) : M unit :=
  upd i (w_closing true) ;;; emit (OEvent i (EDisconnect r)).

(* close(wait=False ...); the caller handles `wait` *)
Definition close_nowait (i : sid) (abort : bool) (r : reason) : M bool :=      (* true = this call did the closing *)
  h <- has_sess i ;;
  ss <- gsess i ;;
  if negb h || s_closed ss || s_closing ss then ret false
  else
    begin_close i r ;;;
    st0 <- getst ;;
    (if abort then ret tt
     else if expired ss (now st0) then ret tt       (* the nested send(CLOSE) re-runs the liveness test and gives up *)
     else q_put i (QP SClose)) ;;;
    upd i (fun x => w_closed true (w_closing true x)) ;;;
    (if q_sentinel (c_quirks cfg) then q_put i QNone else ret tt) ;;;
    ret true.

Inductive sres := SSent | SDropped | SClosedErr.
(* Socket.send *)
Definition sock_send (i : sid) (p : spkt) : M sres :=
  ss <- gsess i ;;
  if s_closed ss then ret SClosedErr
  else
    st0 <- getst ;;
    if expired ss (now st0) then (close_nowait i false RPingTimeout ;;; ret SDropped)
    else
      q_put i (QP p) ;;; ret SSent.

(* BaseServer._get_socket: None = KeyError; a closed entry is reaped *)
Definition get_socket (i : sid) : M bool :=
  it <- in_table i ;;
  if negb it then ret false
  else ss <- gsess i ;; if s_closed ss then (del_table i ;;; ret false) else ret true.

(* Server.send *)
Definition srv_send (i : sid) (m : N) : M unit :=
  ok <- get_socket i ;; if ok then (sock_send i (SMsg m) ;;; ret tt) else ret tt.

(* close(wait=True) as called by disconnect(): returns true when the caller has to block in queue.join() *)
Definition close_wait (i : sid) (r : reason) : M bool :=
  did <- close_nowait i false r ;;
  if did then (ss <- gsess i ;; ret (Nat.ltb 0 (s_unfin ss))) else ret false.

Definition echo_mid (payload : N) : N := (1000000 + payload)%N.

(* ---- handlers ---- *)
(* the application's message handler, run inside task `me`; returns true if `me` is now blocked (disconnect from a
   background handler waiting for the queue) *)
Definition run_handler (me : tid) (background : bool) (i : sid) (payload : N) (a : hact) : M bool :=
  emit (OEvent i (EMessage payload)) ;;;
  match a with
  | HNone | HRaise => ret false
  | HSend => srv_send i (echo_mid payload) ;;; ret false
  | HDisc =>
    if background then
      ok <- get_socket i ;;
      if ok then
        w <- close_wait i RServer ;;
        if w then (upd i (fun ss => w_joiners (s_joiners ss ++ [me]) ss) ;;; block me (TJoin i JHandler) ;;; ret true)
        else (del_table i ;;; ret false)
      else ret false
    else emit OUnsupported ;;; ret false
  end.

(* Socket.receive: false = EngineIOError (unknown packet type, or socket closed).  Since the fix of D24 nothing is
   dispatched for a session that has ended *)
Definition receive (i : sid) (p : cpkt) : M bool :=
  ss0 <- gsess i ;;
  if s_closed ss0 then ret false else
  match p with
  | CPong => spawn (TPingStart i) ;;; ret true
  | CMsg payload a =>
    if c_async_handlers cfg then (spawn (THandler i payload a) ;;; ret true)
    else (run_handler 0%N false i payload a ;;; ret true)
  | CUpgrade => r <- sock_send i SNoop ;; ret (match r with SClosedErr => false | _ => true end)
  | CClose => close_nowait i true RClient ;;; ret true
  | CBad => ret false
  end.
Fixpoint receive_all (i : sid) (l : list cpkt) : M bool :=
  match l with
  | [] => ret true
  | p :: r => ok <- receive i p ;; if ok then receive_all i r else ret false
  end.

(* the EngineIOError branch of handle_request (after the fix of D3): end the session without waiting *)
Definition refuse_and_end (i : sid) : M unit :=
  it <- in_table i ;;
  if it then (close_nowait i false RServer ;;; del_table i) else ret tt.
Definition reap_if_closed (i : sid) : M unit :=
  it <- in_table i ;; ss <- gsess i ;; if it && s_closed ss then del_table i else ret tt.

(* ---- Socket.poll ---- *)
Inductive pres := PBlocked | PEmpty | PGot (l : list spkt).
(* one attempt of the blocking get by task `me`; tout = its timer has fired *)
Definition poll_attempt (me : tid) (tout : bool) (i : sid) (k : pollk) (t : timer) : M pres :=
  ss <- gsess i ;;
  match (if tout && q_timeout_wins (c_quirks cfg) then [] else s_q ss) with
  | [] =>
    if tout then (upd i (fun x => w_getters (nrem me (s_getters x)) x) ;;; ret PEmpty)
    else
      upd i (fun x => w_getters (nrem me (s_getters x) ++ [me]) x) ;;;
      modst (fun s => set_tasks (aset me {| t_task := TPoll i k t; t_tout := false |} (tasks s)) s) ;;;
      ret PBlocked
  | x :: r =>
    psess i (w_taken (s_taken ss ++ mids_of [x]) (w_getters (nrem me (s_getters ss)) (w_q r ss))) ;;;
    q_task_done i ;;;
    match x with
    | QNone => ret (PGot [])
    | QP p => l <- drain (S (length r)) i [p] ;; ret (PGot l)
    end
  end.
Definition poll_start (me : tid) (i : sid) (k : pollk) : M pres :=
  t <- new_timer (I + T) ;; poll_attempt me false i k t.

(* ---- the WebSocket writer ---- *)
Fixpoint ws_send_all (c : cid) (l : list spkt) : M bool :=
  match l with
  | [] => ret true
  | p :: r => k <- gconn c ;;
              if k_cclosed k || k_sclosed k then ret false
              else emit (OWsSend c (WPk p)) ;;; ws_send_all c r
  end.
Definition ws_close (c : cid) : M unit :=
  k <- gconn c ;;
  if k_sclosed k then ret tt
  else pconn c {| k_inbox := k_inbox k; k_cclosed := k_cclosed k; k_sclosed := true; k_waiter := k_waiter k |} ;;;
       emit (OWsClose c) ;;;
       match k_waiter k with Some w => wake w | None => ret tt end.

Definition writer_exit (me : tid) (c : cid) : M unit := ws_close c ;;; finish me.
Fixpoint writer_loop (fuel : nat) (me : tid) (i : sid) (c : cid) (rd : tid) (first : pres) : M unit :=
  match first with
  | PBlocked => ret tt
  | PEmpty => writer_exit me c
  | PGot [] => writer_exit me c
  | PGot l =>
    ok <- ws_send_all c l ;;
    if negb ok then writer_exit me c
    else match fuel with
         | O => emit OOutOfFuel
         | S f => p <- poll_start me i (PKWriter c rd) ;; writer_loop f me i c rd p
         end
  end.

(* ---- completion of a GET poll ---- *)
Definition finish_get (me : tid) (i : sid) (r : rid) (p : pres) : M unit :=
  match p with
  | PBlocked => ret tt
  | PEmpty =>
    close_nowait i false RTransportError ;;; refuse_and_end i ;;; emit (OResp r R400) ;;; reap_if_closed i ;;; finish me
  | PGot l => emit (OResp r (R200 l)) ;;; reap_if_closed i ;;; finish me
  end.

(* ---- heartbeat ---- *)
Definition ping_fire (me : tid) (i : sid) : M unit :=
  ss <- gsess i ;;
  (if s_closing ss || s_closed ss then ret tt
   else st0 <- getst ;; upd i (w_lastp (Some (now st0))) ;;; sock_send i SPing ;;; ret tt) ;;;
  finish me.

(* Socket.check_ping_timeout as used by the monitor *)
Definition check_ping_timeout (i : sid) : M unit :=
  ss <- gsess i ;;
  if s_closed ss then ret tt
  else st0 <- getst ;; if expired ss (now st0) then (close_nowait i false RPingTimeout ;;; ret tt) else ret tt.

(* one visit of the monitor, then it waits `interval`; an empty rest list starts the next sweep *)
Fixpoint svc_continue (fuel : nat) (me : tid) (rest : list sid) (interval : Z) : M unit :=
  match rest with
  | i :: r =>
    ss <- gsess i ;;
    (if s_closed ss then del_table i
     else if negb (s_closing ss) then check_ping_timeout i else ret tt) ;;;
    t <- new_timer interval ;; block me (TSvcVisit r interval t)
  | [] =>
    s <- getst ;;
    match table s with
    | [] => t <- new_timer T ;; block me (TSvcIdle t)
    | tb =>
      match fuel with
      | O => emit OOutOfFuel
      | S f => svc_continue f me tb (T / Z.of_nat (length tb))
      end
    end
  end.

(* ---- the WebSocket session ---- *)
Definition ws_take (c : cid) : M (option (option frame)) :=        (* None = must block; Some None = connection closed *)
  k <- gconn c ;;
  if k_sclosed k then ret (Some None) else
  match k_inbox k with
  | f :: r => pconn c {| k_inbox := r; k_cclosed := k_cclosed k; k_sclosed := k_sclosed k; k_waiter := None |} ;;; ret (Some (Some f))
  | [] => if k_cclosed k then ret (Some None) else ret None
  end.
Definition ws_block (me : tid) (c : cid) (k : task) : M unit :=
  x <- gconn c ;; pconn c {| k_inbox := k_inbox x; k_cclosed := k_cclosed x; k_sclosed := k_sclosed x; k_waiter := Some me |} ;;; block me k.

(* end of a WebSocket request (upgrade or open) *)
(* the request of a WebSocket handler returns: handle_request then drops the table entry of a session that has ended - unless the
   handler left with an exception other than EngineIOError (RRaised), which handle_request does not catch *)
Definition ws_request_done (me : tid) (i : sid) (r : rid) (x : resp) : M unit :=
  emit (OResp r x) ;;; (match x with RRaised => ret tt | _ => reap_if_closed i end) ;;; finish me.

(* epilogue of _websocket_handler after the writer has finished *)
Definition ws_epilogue_end (me : tid) (i : sid) (r : rid) : M unit :=
  close_nowait i true RTransportClose ;;; ws_request_done me i r RWsDone.
Definition ws_epilogue (me : tid) (i : sid) (r : rid) (c : cid) (w : tid) (fresh : bool) : M unit :=
  q_put i QNone ;;;
  a <- alive w ;;
  if a then block me (TWsJoinW r i c w fresh) else ws_epilogue_end me i r.

(* the read loop: process frames while there are some *)
Fixpoint ws_read_loop (fuel : nat) (me : tid) (i : sid) (r : rid) (c : cid) (w : tid) (fresh : bool) : M unit :=
  match fuel with
  | O => emit OOutOfFuel
  | S f =>
    x <- ws_take c ;;
    match x with
    | None =>
      t <- (if q_read_timeout (c_quirks cfg) then (tm <- new_timer (I + T) ;; ret (Some tm)) else ret None) ;;
      ws_block me c (TWsRead r i c w t fresh)
    | Some None => ws_epilogue me i r c w fresh
    | Some (Some fr) =>
      match fr with
      | FOver | FUndec => ws_epilogue me i r c w fresh
      | FPing _ | FPk CBad =>
        (* receive() raises UnknownPacketError, which the loop ignores - unless the session has ended (SocketIsClosedError) *)
        ss <- gsess i ;;
        if s_closed ss then ws_epilogue me i r c w fresh else ws_read_loop f me i r c w fresh
      | FPk p =>
        ok <- receive i p ;;
        if ok then ws_read_loop f me i r c w fresh else ws_epilogue me i r c w fresh
      end
    end
  end.

Definition ws_steady (me : tid) (i : sid) (r : rid) (c : cid) (fresh : bool) : M unit :=
  w <- spawn (TWriterStart i c me) ;;
  k <- gconn c ;;
  ws_read_loop (S (S (length (k_inbox k)))) me i r c w fresh.

Definition upgrade_fail (me : tid) (i : sid) (r : rid) (x : resp) : M unit :=
  upd i (w_upgrading false) ;;; ws_request_done me i r x.

Definition ws_upgr (me : tid) (i : sid) (r : rid) (c : cid) : M unit :=
  x <- ws_take c ;;
  match x with
  | None => ws_block me c (TWsUpgr r i c)
  | Some None => upgrade_fail me i r RWsDone
  | Some (Some (FPk CUpgrade)) =>
    upd i (fun ss => w_upgrading false (w_upgraded true ss)) ;;; ws_steady me i r c false
  | Some (Some FOver) | Some (Some FUndec) => upgrade_fail me i r RRaised
  | Some (Some _) => upgrade_fail me i r RWsDone
  end.

Definition ws_probe (me : tid) (i : sid) (r : rid) (c : cid) : M unit :=
  x <- ws_take c ;;
  match x with
  | None => ws_block me c (TWsProbe r i c)
  | Some None => upgrade_fail me i r RWsDone
  | Some (Some (FPing true)) =>
    k <- gconn c ;;
    if k_cclosed k || k_sclosed k then upgrade_fail me i r RRaised
    else
      emit (OWsSend c WPongProbe) ;;; q_put i (QP SNoop) ;;;
      ws_upgr me i r c
  | Some (Some (FOver)) | Some (Some FUndec) => upgrade_fail me i r RRaised
  | Some (Some _) => upgrade_fail me i r RWsDone
  end.

(* Socket._upgrade_websocket + the start of _websocket_handler *)
Definition ws_begin (me : tid) (i : sid) (r : rid) (c : cid) : M unit :=
  ss <- gsess i ;;
  if s_upgraded ss then emit (OResp r RRaised) ;;; finish me
  else
    emit (OWsAccept c) ;;;
    if s_connected ss then (upd i (w_upgrading true) ;;; ws_probe me i r c)
    else (upd i (fun x => w_upgraded true (w_connected true x)) ;;; ws_steady me i r c true).

(* ---- requests ---- *)
Definition upgrades_ok (tr : transport) : bool :=
  c_allow_upgrades cfg && c_websocket cfg && match tr with TrWebsocket => false | _ => true end.

Definition transport_allowed (tr : transport) : bool :=
  match tr with TrPolling => c_polling cfg | TrWebsocket => c_websocket cfg | TrOther => false end.

(* generate_id + Socket(...) + self.sockets[sid] = s *)
Definition new_session : M sid :=
  fun s => let i := nsid s in
           (i, set_table (table s ++ [i]) (set_store (aset i new_sess (store s)) (set_nsid (N.succ i) s)), []).

(* _handle_connect *)
Definition handle_connect (me : tid) (r : rid) (q : req) : M unit :=
  s0 <- getst ;;
  (if svc_pending s0 then (modst (set_svc false) ;;; spawn TSvcStart ;;; ret tt) else ret tt) ;;;
  i <- new_session ;;
  emit (ONewSession r i) ;;;
  sock_send i SOpen ;;;
  spawn (TPingStart i) ;;;
  emit (OEvent i EConnect) ;;;
  match r_connect q with
  | CoReject tr => del_table i ;;; emit (OResp r (R401 tr)) ;;; finish me
  | CoRaise => del_table i ;;; emit (OResp r (R401 false)) ;;; finish me
  | co =>
    (match co with CoAcceptSend m => srv_send i m | _ => ret tt end) ;;;
    match r_transport q with
    | TrWebsocket =>
      if r_conn_upgrade q then
        match r_conn q with Some c => ws_begin me i r c | None => emit OUnsupported end
      else
        (* no 'Connection: upgrade': the code falls into a plain poll and returns its packet list unwrapped (D17) *)
        p <- poll_start me i (PKGet r) ;;
        match p with PGot _ => emit (OResp r RMalformed) ;;; finish me | _ => emit OUnsupported end
    | _ =>
      upd i (w_connected true) ;;;
      p <- poll_start me i (PKGet r) ;;
      match p with
      | PGot l => emit (OResp r (R200 l)) ;;; finish me
      | PEmpty => emit (OResp r R400) ;;; finish me
      | PBlocked => ret tt
      end
    end
  end.

Definition transport_of (ss : sess) : transport := if s_upgraded ss then TrWebsocket else TrPolling.
Definition tr_eqb (a b : transport) : bool :=
  match a, b with TrPolling, TrPolling | TrWebsocket, TrWebsocket | TrOther, TrOther => true | _, _ => false end.

Definition answer (me : tid) (r : rid) (x : resp) : M unit := emit (OResp r x) ;;; finish me.

(* ---- the admission decision of handle_request, as a pure function ---- *)
(* what the request handler knows about the session a request names, after _get_socket *)
Record sview := { v_upgrading : bool; v_upgraded : bool }.
Inductive decision :=
| DRefuse (x : resp)                 (* answered 400 / 405 at once *)
| DOptions                           (* 200 OK *)
| DConnect                           (* a new session *)
| DUpgrade (i : sid)                 (* hand the request to the WebSocket upgrade of session i *)
| DNoop (i : sid)                    (* session is upgrading / upgraded: NOOP *)
| DPoll (i : sid)                    (* long poll *)
| DPost (i : sid).                   (* process the body *)

(* the checks made before any session is looked up *)
Definition decide_early (q : req) : option resp :=
  if r_origin_refused q then Some R400
  else if negb (transport_allowed (r_transport q)) || (negb (c_websocket cfg) && r_upgrade_ws q) then Some R400
  else if match r_sid q with None => negb (r_eio4 q) | Some _ => false end then Some R400
  else if match r_jsonp q with JBad => true | _ => false end then Some R400
  else match r_method q with MOther => Some R405 | _ => None end.

Definition wants_ws_upgrade (q : req) : bool := r_conn_upgrade q && r_upgrade_ws q.

(* v: the session named by the request, None if the request names none that is addressable *)
Definition decide (q : req) (v : option sview) : decision :=
  match decide_early q with
  | Some x => DRefuse x
  | None =>
    match r_method q with
    | MOptions => DOptions
    | MOther => DRefuse R405
    | MGet =>
      match r_sid q with
      | None =>
        if match r_transport q with TrPolling => true | TrWebsocket => r_upgrade_ws q | TrOther => false end
        then DConnect else DRefuse R400
      | Some SUnknown => DRefuse R400
      | Some (SKnown i) =>
        match v with
        | None => DRefuse R400
        | Some w =>
          if negb (tr_eqb (if v_upgraded w then TrWebsocket else TrPolling) (r_transport q)) &&
             negb (match r_transport q with TrWebsocket => r_upgrade_ws q | _ => false end)
          then DRefuse R400
          else if wants_ws_upgrade q then DUpgrade i
          else if v_upgrading w || v_upgraded w then DNoop i
          else DPoll i
        end
      end
    | MPost =>
      match r_sid q with
      | Some (SKnown i) => match v with Some _ => DPost i | None => DRefuse R400 end
      | _ => DRefuse R400
      end
    end
  end.

(* `sid in self.sockets` then _get_socket(sid): a closed entry is reaped on the way.  Only the GET and POST branches of handle_request
   look the session up: an OPTIONS request that names a session does not touch the table *)
Definition lookup_view (q : req) : M (option sview) :=
  match decide_early q, r_sid q with
  | None, Some (SKnown i) =>
    if match r_method q with MOptions => true | _ => false end then ret None else
    it <- in_table i ;;
    if negb it then ret None
    else ok <- get_socket i ;;
         if negb ok then ret None
         else ss <- gsess i ;; ret (Some {| v_upgrading := s_upgrading ss; v_upgraded := s_upgraded ss |})
  | _, _ => ret None
  end.

(* handle_request after the origin gate *)
Definition handle_request (me : tid) (r : rid) (q : req) : M unit :=
  v <- lookup_view q ;;
  match decide q v with
  | DRefuse x => answer me r x
  | DOptions => answer me r R200ok
  | DConnect => handle_connect me r q
  | DUpgrade i => match r_conn q with Some c => ws_begin me i r c | None => emit OUnsupported end
  | DNoop i => emit (OResp r (R200 [SNoop])) ;;; reap_if_closed i ;;; finish me
  | DPoll i => p <- poll_start me i (PKGet r) ;; finish_get me i r p
  | DPost i =>
    match r_body q with
    | BTooLong => refuse_and_end i ;;; answer me r R400
    | BUndecodable => answer me r R200ok
    | BPackets l =>
      ok2 <- receive_all i l ;;
      if ok2 then answer me r R200ok else (refuse_and_end i ;;; answer me r R400)
    end
  end.

(* ---- application API ---- *)
Inductive api := ApiSend (i : sidref) (m : N) | ApiDisconnect (i : option sidref) | ApiTransport (i : sidref)
               | ApiGetSession (i : sidref) | ApiSaveSession (i : sidref) (u : N).

(* threaded disconnect(): one session after the other, each with close(wait=True) *)
Fixpoint disc_seq (fuel : nat) (me : tid) (a : aid) (l : list sid) : M unit :=
  match l with
  | [] => emit (OApi a ARet) ;;; finish me
  | i :: r =>
    w <- close_wait i RServer ;;
    if w then (upd i (fun ss => w_joiners (s_joiners ss ++ [me]) ss) ;;; block me (TJoin i (JApiSeq a r)))
    else del_table i ;;;                     (* only the sessions that were closed leave the table (fix D37) *)
         match fuel with O => emit OOutOfFuel | S f => disc_seq f me a r end
  end.
Fixpoint spawn_closers (me : tid) (l : list sid) : M (list tid) :=
  match l with [] => ret [] | i :: r => t <- spawn (TCloseOne i me) ;; ts <- spawn_closers me r ;; ret (t :: ts) end.

Definition known (x : sidref) : option sid := match x with SKnown i => Some i | SUnknown => None end.

Definition run_api (me : tid) (a : aid) (x : api) : M unit :=
  match x with
  | ApiSend ref m =>
    (match known ref with Some i => srv_send i m | None => ret tt end) ;;; emit (OApi a ARet) ;;; finish me
  | ApiDisconnect (Some ref) =>
    match known ref with
    | None => emit (OApi a ARet) ;;; finish me
    | Some i =>
      ok <- get_socket i ;;
      if negb ok then emit (OApi a ARet) ;;; finish me
      else
        w <- close_wait i RServer ;;
        if w then (upd i (fun ss => w_joiners (s_joiners ss ++ [me]) ss) ;;; block me (TJoin i (JApiOne a)))
        else (del_table i ;;; emit (OApi a ARet) ;;; finish me)
    end
  | ApiDisconnect None =>
    s <- getst ;;
    if q_concurrent_disc (c_quirks cfg) then
      match table s with
      | [] => emit (OApi a ARet) ;;; finish me
      | tb => ts <- spawn_closers me tb ;; block me (TWaitAll a ts tb)
      end
    else disc_seq (S (length (table s))) me a (table s)
  | ApiTransport ref =>
    match known ref with
    | None => emit (OApi a AKeyError) ;;; finish me
    | Some i => ok <- get_socket i ;;
                if ok then (ss <- gsess i ;; emit (OApi a (ATransport (s_upgraded ss))) ;;; finish me) else (emit (OApi a AKeyError) ;;; finish me)
    end
  | ApiGetSession ref =>
    match known ref with
    | None => emit (OApi a AKeyError) ;;; finish me
    | Some i => ok <- get_socket i ;;
                if ok then (ss <- gsess i ;; emit (OApi a (ASession (s_udata ss))) ;;; finish me) else (emit (OApi a AKeyError) ;;; finish me)
    end
  | ApiSaveSession ref u =>
    match known ref with
    | None => emit (OApi a AKeyError) ;;; finish me
    | Some i => ok <- get_socket i ;;
                if ok then (upd i (w_udata u) ;;; emit (OApi a ARet) ;;; finish me) else (emit (OApi a AKeyError) ;;; finish me)
    end
  end.

(* ---- resuming a task ---- *)
Definition run_task (me : tid) (e : tentry) : M unit :=
  match t_task e with
  | TPoll i (PKGet r) t => p <- poll_attempt me (t_tout e) i (PKGet r) t ;; finish_get me i r p
  | TPoll i (PKWriter c rd) t =>
    p <- poll_attempt me (t_tout e) i (PKWriter c rd) t ;;
    ss <- gsess i ;; writer_loop (S (S (length (s_q ss)))) me i c rd p
  | TWriterStart i c rd =>
    p <- poll_start me i (PKWriter c rd) ;;
    ss <- gsess i ;; writer_loop (S (S (length (s_q ss)))) me i c rd p
  | TWsProbe r i c => ws_probe me i r c
  | TWsUpgr r i c => ws_upgr me i r c
  | TWsRead r i c w t fresh =>
    if t_tout e then ws_epilogue me i r c w fresh
    else (k <- gconn c ;; ws_read_loop (S (S (length (k_inbox k)))) me i r c w fresh)
  | TWsJoinW r i c w fresh => ws_epilogue_end me i r
  | TJoin i k =>
    ss <- gsess i ;;
    if Nat.ltb 0 (s_unfin ss) then (upd i (fun x => w_joiners (s_joiners x ++ [me]) x) ;;; block me (TJoin i k))
    else match k with
         | JHandler => del_table i ;;; finish me
         | JCloser => finish me
         | JApiOne a => del_table i ;;; emit (OApi a ARet) ;;; finish me
         | JApiSeq a rest => del_table i ;;; disc_seq (S (length rest)) me a rest
         end
  | TPingStart i => upd i (w_lastp None) ;;; t <- new_timer I ;; block me (TPing i t)
  | TPing i _ => ping_fire me i
  | TSvcStart => svc_continue 1 me [] 0
  | TSvcIdle _ => svc_continue 1 me [] 0
  | TSvcVisit rest interval _ => svc_continue 1 me rest interval
  | THandler i payload a => b <- run_handler me true i payload a ;; if b then ret tt else finish me
  | TCloseOne i parent =>
    w <- close_wait i RServer ;;
    if w then (upd i (fun ss => w_joiners (s_joiners ss ++ [me]) ss) ;;; block me (TJoin i JCloser)) else finish me
  | TWaitAll a pend sids =>
    s <- getst ;;
    if existsb (fun t => match alookup t (tasks s) with Some _ => true | None => false end) pend
    then block me (TWaitAll a pend sids)
    else del_tables sids ;;; emit (OApi a ARet) ;;; finish me
  end.

(* ---- scheduler ---- *)
Fixpoint nth_remove (k : nat) (l : list tid) : option (tid * list tid) :=
  match l, k with
  | [], _ => None
  | x :: r, O => Some (x, r)
  | x :: r, S k' => match nth_remove k' r with Some (y, r') => Some (y, x :: r') | None => Some (x, r) end
  end.

(* run runnable tasks until none is left; `choices` picks which one runs next (default: the first) *)
Fixpoint settle (fuel : nat) (choices : list nat) : M unit :=
  match fuel with
  | O => s <- getst ;; match runq s with [] => ret tt | _ => emit OOutOfFuel end
  | S f =>
    s <- getst ;;
    let '(k, cs) := match choices with [] => (O, []) | c :: r => (c, r) end in
    match nth_remove k (runq s) with
    | None => ret tt
    | Some (t, rq) =>
      modst (set_runq rq) ;;;
      match alookup t (tasks s) with
      | Some e => run_task t e ;;; settle f cs
      | None => settle f cs
      end
    end
  end.

Definition timer_of (k : task) : option timer :=
  match k with
  | TPoll _ _ t | TPing _ t | TSvcIdle t | TSvcVisit _ _ t => Some t
  | TWsRead _ _ _ _ t _ => t
  | _ => None
  end.
Definition timer_lt (a b : timer) : bool := Z.ltb (fst a) (fst b) || (Z.eqb (fst a) (fst b) && N.ltb (snd a) (snd b)).
Fixpoint next_timer (l : list (tid * tentry)) (best : option (tid * timer)) : option (tid * timer) :=
  match l with
  | [] => best
  | (t, e) :: r =>
    match timer_of (t_task e) with
    | Some tm => if t_tout e then next_timer r best
                 else match best with
                      | Some (_, b) => if timer_lt tm b then next_timer r (Some (t, tm)) else next_timer r best
                      | None => next_timer r (Some (t, tm))
                      end
    | None => next_timer r best
    end
  end.

Definition SETTLE_FUEL : nat := 400.

(* all live timers with deadline d, in creation order *)
Fixpoint insert_seq (x : tid * N) (l : list (tid * N)) : list (tid * N) :=
  match l with [] => [x] | y :: r => if N.leb (snd x) (snd y) then x :: l else y :: insert_seq x r end.
Fixpoint due_at (d : Z) (l : list (tid * tentry)) (acc : list (tid * N)) : list (tid * N) :=
  match l with
  | [] => acc
  | (t, e) :: r =>
    match timer_of (t_task e) with
    | Some tm => if negb (t_tout e) && Z.eqb (fst tm) d then due_at d r (insert_seq (t, snd tm) acc) else due_at d r acc
    | None => due_at d r acc
    end
  end.
Definition fire (t : tid) : M unit :=
  modst (fun s => match alookup t (tasks s) with
                  | Some e => set_tasks (aset t {| t_task := t_task e; t_tout := true |} (tasks s)) s
                  | None => s end) ;;;
  wake t.
Fixpoint fire_all (l : list (tid * N)) : M unit := match l with [] => ret tt | (t, _) :: r => fire t ;;; fire_all r end.

Fixpoint advance (fuel : nat) (target : Z) : M unit :=
  match fuel with
  | O => emit OOutOfFuel
  | S f =>
    settle SETTLE_FUEL [] ;;;
    s <- getst ;;
    match next_timer (tasks s) None with
    | Some (t, tm) =>
      if Z.leb (fst tm) target then
        modst (fun s => set_now (Z.max (now s) (fst tm)) s) ;;;
        (if q_batch_timers (c_quirks cfg) then
           let due := due_at (fst tm) (tasks s) [] in
           (match due with _ :: _ :: _ => emit OTie | _ => ret tt end) ;;; fire_all due
         else fire t) ;;;
        advance f target
      else modst (set_now target)
    | None => modst (set_now target)
    end
  end.

(* ---- external stimuli ---- *)
Inductive op :=
| OpReq (r : rid) (q : req)
| OpWsFrame (c : cid) (f : frame)
| OpWsClose (c : cid)
| OpApi (a : aid) (x : api)
| OpCancel (c : cid)              (* the web server cancels the task serving WebSocket c (CancelledError / GreenletExit) *)
| OpCancelPoll (r : rid)          (* ... or the task of the long-poll request r *)
| OpAdvance (dt : Z).

Definition apply_op (o : op) (choices : list nat) : M unit :=
  match o with
  | OpReq r q =>
    (match r_conn q with Some c => pconn c new_conn | None => ret tt end) ;;;
    s <- getst ;;
    let me := ntid s in
    (* the request's task is created runnable and, the run queue being empty between stimuli, runs first *)
    modst (fun s => set_tasks (aset me {| t_task := TSvcStart; t_tout := false |} (tasks s)) (set_ntid (N.succ me) s)) ;;;
    handle_request me r q ;;; settle SETTLE_FUEL choices
  | OpWsFrame c f =>
    k <- gconn c ;;
    pconn c {| k_inbox := k_inbox k ++ [f]; k_cclosed := k_cclosed k; k_sclosed := k_sclosed k; k_waiter := k_waiter k |} ;;;
    (match k_waiter k with Some w => wake w | None => ret tt end) ;;; settle SETTLE_FUEL choices
  | OpWsClose c =>
    k <- gconn c ;;
    pconn c {| k_inbox := k_inbox k; k_cclosed := true; k_sclosed := k_sclosed k; k_waiter := k_waiter k |} ;;;
    (match k_waiter k with Some w => wake w | None => ret tt end) ;;; settle SETTLE_FUEL choices
  | OpApi a x =>
    s <- getst ;;
    let me := ntid s in
    modst (fun s => set_tasks (aset me {| t_task := TSvcStart; t_tout := false |} (tasks s)) (set_ntid (N.succ me) s)) ;;;
    run_api me a x ;;; settle SETTLE_FUEL choices
  | OpCancel c =>
    (* modelled for a task that is waiting for a frame of the upgrade handshake: the handler's `except BaseException` clears
       `upgrading` and the exception leaves the request; cancelling any other task is not a stimulus of the model *)
    k <- gconn c ;;
    match k_waiter k with
    | Some w =>
      s <- getst ;;
      match alookup w (tasks s) with
      | Some e =>
        match t_task e with
        | TWsProbe r i _ | TWsUpgr r i _ =>
          pconn c {| k_inbox := k_inbox k; k_cclosed := k_cclosed k; k_sclosed := k_sclosed k; k_waiter := None |} ;;;
          upgrade_fail w i r RRaised ;;; settle SETTLE_FUEL choices
        | _ => ret tt
        end
      | None => ret tt
      end
    | None => ret tt
    end
  | OpCancelPoll r =>
    (* asyncio: poll() treats the cancellation of its wait like its time-out (the session ends with a transport error and the
       request is answered 400); threads cannot be cancelled: not a stimulus there *)
    if q_timeout_wins (c_quirks cfg) then
      s <- getst ;;
      match find (fun e => match t_task (snd e) with TPoll _ (PKGet r') _ => N.eqb r r' | _ => false end) (tasks s) with
      | Some (t, _) => fire t ;;; settle SETTLE_FUEL choices
      | None => ret tt
      end
    else ret tt
  | OpAdvance dt => s <- getst ;; advance 2000 (now s + dt)
  end.
End WithConfig.

Definition init (cfg : config) : st :=
  {| now := 1024000; tseq := 0%N; ntid := 0%N; nsid := 0%N; store := []; table := []; tasks := []; runq := []; conns := [];
     svc_pending := c_monitor cfg |}.

Fixpoint run_ops (cfg : config) (ops : list op) (s : st) : st * list (list out) :=
  match ops with
  | [] => (s, [])
  | o :: r => let '(_, s1, o1) := apply_op cfg o [] s in let '(s2, os) := run_ops cfg r s1 in (s2, o1 :: os)
  end.
