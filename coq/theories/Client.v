(* The Engine.IO client as a cooperative task system: client.py / async_client.py (connect, the polling and WebSocket
   read loops, the write loop, disconnect, send, wait) against a scripted network: the stimuli are the answers of a server.
   One model for Client and AsyncClient; their differences are the fields of `cquirks`.  Time unit: 1/8 s. *)
From Coq Require Import ZArith NArith List Bool.
Import ListNotations.
Open Scope Z_scope.

Definition tid := N.  Definition hid := N.  Definition cid := N.

Inductive hact := HNone | HRaise | HSend | HDisc.
(* packets from the server, as the client decodes them *)
Inductive spk :=
| KOpen (wellformed : bool) (upgrades_ws : bool) (interval timeout : Z)
| KMsg (m : N) (a : hact) | KPing (d : N) | KNoop | KClose | KPongProbe | KOther.
(* packets the client sends *)
Inductive ck := CkMsg (m : N) (binary : bool) | CkPong (d : N) | CkClose.
Inductive qi := QP (p : ck) | QEnd.                                   (* QEnd: the None end marker *)

Inductive hreply := HOk (l : list spk) | HStatus | HGarbage | HFail.
Inductive frame := FrPk (p : spk) | FrGarbage.

Inductive reason := RClient | RServer | RTransportError.
Inductive ev := EvConnect | EvMessage (m : N) | EvDisconnect (r : reason).
Inductive cstate := Disconnected | Connected | Disconnecting.
Inductive tr := TrPolling | TrWebsocket.
Inductive rkind := KindOpen | KindPoll | KindPost.
Inductive callres := ROk | RConnectionError | RValueError | ROtherError.
Inductive wsout := WProbe | WUpgrade | WPk (p : ck).

Inductive out :=
| OHttp (h : hid) (k : rkind) (body : list ck)
| OWsConnect (c : cid) (upgrade : bool)
| OWsSend (c : cid) (w : wsout)
| OWsClose (c : cid)
| OEv (e : ev)
| ORet (call : N) (r : callres)
| OOutOfFuel.

Record cquirks := {
  cq_handshake_recv_timeout : bool    (* the recv of the upgrade/open handshake times out after request_timeout (threaded) *)
}.
Record ccfg := { cc_request_timeout : Z; cc_connect_handler_disconnects : bool; cc_quirks : cquirks }.

Definition timer := (Z * N)%type.
Inductive djoin := DJApi (call : N) | DJHandler.
Inductive task :=
| TCOpenGet (call : N) (h : hid) (t : timer) (trs : list tr)
| TCWsConn (call : N) (c : cid) (upgrade : bool) (t : timer)
| TCProbe (call : N) (c : cid) (t : option timer)
| TCOpenRecv (call : N) (c : cid) (t : option timer)
| TReadStart (ws : bool)
| TRGet (h : hid) (t : timer) (ep : N)
| TRWs (c : cid) (t : timer) (ep : N)
| TRJoinW (w : tid) (ep : N)
| TWriteStart
| TWGet (t : timer) (ep : N)
| TWPost (h : hid) (t : timer) (n : nat) (ep : N)
| TDJoin (k : djoin) (r : tid)
| THMsg (m : N) (a : hact)
| TWait (call : N) (r : tid).
Record tentry := { t_task : task; t_tout : bool }.

Record wsrec := { w_inbox : list frame; w_srv_closed : bool; w_cli_closed : bool; w_waiter : option tid }.
Record hrec := { h_owner : tid; h_reply : option hreply }.

Record st := {
  now : Z; tseq : N; ntid : N; nhid : N; ncid : N;
  state : cstate; sid_set : bool; transport : option tr;
  queue : list qi; getter : option tid;
  interval : Z; ptimeout : Z; upgrades_ws : bool; transports : list tr;
  ws : option cid; read_task : option tid; write_task : option tid;
  conns : list (cid * wsrec); https : list (hid * hrec);
  wsconn_result : list (cid * bool);         (* answers to connection attempts: true = accepted *)
  tasks : list (tid * tentry); runq : list tid;
  qepoch : N                                 (* identity of the send queue: connect() creates a new one *) }.

Fixpoint alookup {A} (k : N) (l : list (N * A)) : option A :=
  match l with [] => None | (k', v) :: r => if N.eqb k k' then Some v else alookup k r end.
Fixpoint aset {A} (k : N) (v : A) (l : list (N * A)) : list (N * A) :=
  match l with [] => [(k, v)] | (k', v') :: r => if N.eqb k k' then (k, v) :: r else (k', v') :: aset k v r end.
Fixpoint adel {A} (k : N) (l : list (N * A)) : list (N * A) :=
  match l with [] => [] | (k', v') :: r => if N.eqb k k' then r else (k', v') :: adel k r end.
Fixpoint nmem (k : N) (l : list N) : bool := match l with [] => false | x :: r => N.eqb k x || nmem k r end.

Definition M (A : Type) := st -> A * st * list out.
Definition ret {A} (a : A) : M A := fun s => (a, s, []).
Definition bind {A B} (m : M A) (f : A -> M B) : M B :=
  fun s => let '(a, s1, o1) := m s in let '(b, s2, o2) := f a s1 in (b, s2, o1 ++ o2).
Notation "x <- m ;; k" := (bind m (fun x => k)) (at level 61, m at next level, right associativity).
Notation "m ;;; k" := (bind m (fun _ => k)) (at level 61, right associativity).
Definition emit (o : out) : M unit := fun s => (tt, s, [o]).
Definition getst : M st := fun s => (s, s, []).
Definition modst (f : st -> st) : M unit := fun s => (tt, f s, []).

(* record update helpers (one per field that changes) *)
Definition upd_core (s : st) now' tseq' ntid' nhid' ncid' state' sid' tr' q' g' i' t' u' trs' ws' rd' wr' conns' https' wres' tasks' runq' : st :=
  let ep := qepoch s in
  {| now := now'; tseq := tseq'; ntid := ntid'; nhid := nhid'; ncid := ncid'; state := state'; sid_set := sid'; transport := tr';
     queue := q'; getter := g'; interval := i'; ptimeout := t'; upgrades_ws := u'; transports := trs'; ws := ws'; read_task := rd';
     write_task := wr'; conns := conns'; https := https'; wsconn_result := wres'; tasks := tasks'; runq := runq'; qepoch := ep |}.
Definition set_now v s := upd_core s v (tseq s) (ntid s) (nhid s) (ncid s) (state s) (sid_set s) (transport s) (queue s) (getter s) (interval s) (ptimeout s) (upgrades_ws s) (transports s) (ws s) (read_task s) (write_task s) (conns s) (https s) (wsconn_result s) (tasks s) (runq s).
Definition set_tseq v s := upd_core s (now s) v (ntid s) (nhid s) (ncid s) (state s) (sid_set s) (transport s) (queue s) (getter s) (interval s) (ptimeout s) (upgrades_ws s) (transports s) (ws s) (read_task s) (write_task s) (conns s) (https s) (wsconn_result s) (tasks s) (runq s).
Definition set_ntid v s := upd_core s (now s) (tseq s) v (nhid s) (ncid s) (state s) (sid_set s) (transport s) (queue s) (getter s) (interval s) (ptimeout s) (upgrades_ws s) (transports s) (ws s) (read_task s) (write_task s) (conns s) (https s) (wsconn_result s) (tasks s) (runq s).
Definition set_nhid v s := upd_core s (now s) (tseq s) (ntid s) v (ncid s) (state s) (sid_set s) (transport s) (queue s) (getter s) (interval s) (ptimeout s) (upgrades_ws s) (transports s) (ws s) (read_task s) (write_task s) (conns s) (https s) (wsconn_result s) (tasks s) (runq s).
Definition set_ncid v s := upd_core s (now s) (tseq s) (ntid s) (nhid s) v (state s) (sid_set s) (transport s) (queue s) (getter s) (interval s) (ptimeout s) (upgrades_ws s) (transports s) (ws s) (read_task s) (write_task s) (conns s) (https s) (wsconn_result s) (tasks s) (runq s).
Definition set_state v s := upd_core s (now s) (tseq s) (ntid s) (nhid s) (ncid s) v (sid_set s) (transport s) (queue s) (getter s) (interval s) (ptimeout s) (upgrades_ws s) (transports s) (ws s) (read_task s) (write_task s) (conns s) (https s) (wsconn_result s) (tasks s) (runq s).
Definition set_sid v s := upd_core s (now s) (tseq s) (ntid s) (nhid s) (ncid s) (state s) v (transport s) (queue s) (getter s) (interval s) (ptimeout s) (upgrades_ws s) (transports s) (ws s) (read_task s) (write_task s) (conns s) (https s) (wsconn_result s) (tasks s) (runq s).
Definition set_transport v s := upd_core s (now s) (tseq s) (ntid s) (nhid s) (ncid s) (state s) (sid_set s) v (queue s) (getter s) (interval s) (ptimeout s) (upgrades_ws s) (transports s) (ws s) (read_task s) (write_task s) (conns s) (https s) (wsconn_result s) (tasks s) (runq s).
Definition set_queue v s := upd_core s (now s) (tseq s) (ntid s) (nhid s) (ncid s) (state s) (sid_set s) (transport s) v (getter s) (interval s) (ptimeout s) (upgrades_ws s) (transports s) (ws s) (read_task s) (write_task s) (conns s) (https s) (wsconn_result s) (tasks s) (runq s).
Definition set_getter v s := upd_core s (now s) (tseq s) (ntid s) (nhid s) (ncid s) (state s) (sid_set s) (transport s) (queue s) v (interval s) (ptimeout s) (upgrades_ws s) (transports s) (ws s) (read_task s) (write_task s) (conns s) (https s) (wsconn_result s) (tasks s) (runq s).
Definition set_timing i t u s := upd_core s (now s) (tseq s) (ntid s) (nhid s) (ncid s) (state s) (sid_set s) (transport s) (queue s) (getter s) i t u (transports s) (ws s) (read_task s) (write_task s) (conns s) (https s) (wsconn_result s) (tasks s) (runq s).
Definition set_transports v s := upd_core s (now s) (tseq s) (ntid s) (nhid s) (ncid s) (state s) (sid_set s) (transport s) (queue s) (getter s) (interval s) (ptimeout s) (upgrades_ws s) v (ws s) (read_task s) (write_task s) (conns s) (https s) (wsconn_result s) (tasks s) (runq s).
Definition set_ws v s := upd_core s (now s) (tseq s) (ntid s) (nhid s) (ncid s) (state s) (sid_set s) (transport s) (queue s) (getter s) (interval s) (ptimeout s) (upgrades_ws s) (transports s) v (read_task s) (write_task s) (conns s) (https s) (wsconn_result s) (tasks s) (runq s).
Definition set_read v s := upd_core s (now s) (tseq s) (ntid s) (nhid s) (ncid s) (state s) (sid_set s) (transport s) (queue s) (getter s) (interval s) (ptimeout s) (upgrades_ws s) (transports s) (ws s) v (write_task s) (conns s) (https s) (wsconn_result s) (tasks s) (runq s).
Definition set_write v s := upd_core s (now s) (tseq s) (ntid s) (nhid s) (ncid s) (state s) (sid_set s) (transport s) (queue s) (getter s) (interval s) (ptimeout s) (upgrades_ws s) (transports s) (ws s) (read_task s) v (conns s) (https s) (wsconn_result s) (tasks s) (runq s).
Definition set_conns v s := upd_core s (now s) (tseq s) (ntid s) (nhid s) (ncid s) (state s) (sid_set s) (transport s) (queue s) (getter s) (interval s) (ptimeout s) (upgrades_ws s) (transports s) (ws s) (read_task s) (write_task s) v (https s) (wsconn_result s) (tasks s) (runq s).
Definition set_https v s := upd_core s (now s) (tseq s) (ntid s) (nhid s) (ncid s) (state s) (sid_set s) (transport s) (queue s) (getter s) (interval s) (ptimeout s) (upgrades_ws s) (transports s) (ws s) (read_task s) (write_task s) (conns s) v (wsconn_result s) (tasks s) (runq s).
Definition set_wres v s := upd_core s (now s) (tseq s) (ntid s) (nhid s) (ncid s) (state s) (sid_set s) (transport s) (queue s) (getter s) (interval s) (ptimeout s) (upgrades_ws s) (transports s) (ws s) (read_task s) (write_task s) (conns s) (https s) v (tasks s) (runq s).
Definition set_tasks v s := upd_core s (now s) (tseq s) (ntid s) (nhid s) (ncid s) (state s) (sid_set s) (transport s) (queue s) (getter s) (interval s) (ptimeout s) (upgrades_ws s) (transports s) (ws s) (read_task s) (write_task s) (conns s) (https s) (wsconn_result s) v (runq s).
Definition bump_epoch (s : st) : st :=
  {| now := now s; tseq := tseq s; ntid := ntid s; nhid := nhid s; ncid := ncid s; state := state s; sid_set := sid_set s; transport := transport s;
     queue := queue s; getter := getter s; interval := interval s; ptimeout := ptimeout s; upgrades_ws := upgrades_ws s; transports := transports s; ws := ws s;
     read_task := read_task s; write_task := write_task s; conns := conns s; https := https s; wsconn_result := wsconn_result s; tasks := tasks s; runq := runq s;
     qepoch := N.succ (qepoch s) |}.
Definition set_runq v s := upd_core s (now s) (tseq s) (ntid s) (nhid s) (ncid s) (state s) (sid_set s) (transport s) (queue s) (getter s) (interval s) (ptimeout s) (upgrades_ws s) (transports s) (ws s) (read_task s) (write_task s) (conns s) (https s) (wsconn_result s) (tasks s) v.

(* ---- scheduler ---- *)
Definition wake (t : tid) : M unit :=
  modst (fun s => match alookup t (tasks s) with
                  | Some _ => if nmem t (runq s) then s else set_runq (runq s ++ [t]) s
                  | None => s end).
Definition spawn (k : task) : M tid :=
  fun s => let t := ntid s in
           (t, set_runq (runq s ++ [t]) (set_tasks (aset t {| t_task := k; t_tout := false |} (tasks s)) (set_ntid (N.succ t) s)), []).
Definition block (me : tid) (k : task) : M unit :=
  modst (fun s => set_tasks (aset me {| t_task := k; t_tout := false |} (tasks s)) s).
Definition new_timer (dt : Z) : M timer := fun s => ((now s + dt, tseq s), set_tseq (N.succ (tseq s)) s, []).
Definition alive (t : tid) : M bool := fun s => (match alookup t (tasks s) with Some _ => true | None => false end, s, []).
Definition joiner_of (t : tid) (s : st) (e : tid * tentry) : option tid :=
  match t_task (snd e) with
  | TRJoinW w _ => if N.eqb w t then Some (fst e) else None
  | TDJoin _ r | TWait _ r => if N.eqb r t then Some (fst e) else None
  | _ => None
  end.
Fixpoint wake_all (l : list tid) : M unit := match l with [] => ret tt | t :: r => wake t ;;; wake_all r end.
(* a task ends: whoever joins it is woken *)
Definition finish (me : tid) : M unit :=
  s <- getst ;;
  modst (fun s => set_tasks (adel me (tasks s)) s) ;;;
  wake_all (flat_map (fun e => match joiner_of me s e with Some w => [w] | None => [] end) (tasks s)).

(* ---- the send queue (single consumer: the write loop) ---- *)
Definition q_put (x : qi) : M unit :=
  s <- getst ;;
  modst (fun s => set_queue (queue s ++ [x]) s) ;;;
  match getter s with Some g => modst (set_getter None) ;;; wake g | None => ret tt end.

Section WithCfg.
Variable cfg : ccfg.
Definition GRACE : Z := 40.        (* the fixed 5 s of the polling timeouts *)
Definition poll_timeout (s : st) : Z := Z.max (interval s) (ptimeout s) + GRACE.

Definition send_packet (p : ck) : M unit :=
  s <- getst ;; match state s with Connected => q_put (QP p) | _ => ret tt end.

Definition reset : M unit := modst (fun s => set_sid false (set_state Disconnected s)).

(* the websocket of the client *)
Definition gws (c : cid) : M wsrec :=
  fun s => (match alookup c (conns s) with Some x => x | None => {| w_inbox := []; w_srv_closed := false; w_cli_closed := false; w_waiter := None |} end, s, []).
Definition pws (c : cid) (x : wsrec) : M unit := modst (fun s => set_conns (aset c x (conns s)) s).
Definition ws_close (c : cid) : M unit :=
  w <- gws c ;;
  if w_cli_closed w then ret tt
  else pws c {| w_inbox := w_inbox w; w_srv_closed := w_srv_closed w; w_cli_closed := true; w_waiter := w_waiter w |} ;;;
       emit (OWsClose c) ;;;
       match w_waiter w with Some t => wake t | None => ret tt end.
Definition ws_can_send (c : cid) : M bool := w <- gws c ;; ret (negb (w_cli_closed w || w_srv_closed w)).

(* the disconnect event.  Its handler may itself call disconnect(): the state is 'disconnecting' whenever the event fires, and
   disconnect() then does nothing (fixes D34, D35), so that possibility needs no case of its own *)
Definition disc_event (r : reason) : M unit := emit (OEv (EvDisconnect r)).

(* disconnect(abort, reason).  Returns the read-loop task the caller must now wait for (join), if any *)
Definition disconnect_core (me : tid) (abort : bool) (r : reason) : M (option tid) :=
  s <- getst ;;
  match state s with
  | Connected =>
    send_packet CkClose ;;; q_put QEnd ;;;
    modst (set_state Disconnecting) ;;;
    disc_event r ;;;
    (match transport s, ws s with Some TrWebsocket, Some c => ws_close c | _, _ => ret tt end) ;;;
    s1 <- getst ;;
    match abort, read_task s1 with
    | false, Some rt =>
      a <- alive rt ;;
      if a && negb (N.eqb rt me) then ret (Some rt)
      else modst (set_state Disconnected) ;;; reset ;;; ret None
    | _, _ => modst (set_state Disconnected) ;;; reset ;;; ret None
    end
  | Disconnecting => ret None                    (* another disconnect() is in progress and will finish the job *)
  | Disconnected => reset ;;; ret None
  end.
Definition disconnect_finish : M unit := modst (set_state Disconnected) ;;; reset.

(* _receive_packet *)
Definition receive_packet (me : tid) (p : spk) : M unit :=
  match p with
  | KMsg m a => spawn (THMsg m a) ;;; ret tt
  | KPing d => send_packet (CkPong d)
  | KClose => disconnect_core me true RServer ;;; ret tt
  | _ => ret tt
  end.
(* the packets of one payload: handling stops once the connection has ended (fix D29) *)
Fixpoint receive_all (me : tid) (l : list spk) : M unit :=
  match l with
  | [] => ret tt
  | p :: r => s <- getst ;; match state s with Connected => receive_packet me p ;;; receive_all me r | _ => ret tt end
  end.

(* issuing requests *)
Definition http_request (me : tid) (k : rkind) (body : list ck) : M hid :=
  fun s => let h := nhid s in
           (h, set_https (aset h {| h_owner := me; h_reply := None |} (https s)) (set_nhid (N.succ h) s), [OHttp h k body]).
Definition http_take (h : hid) : M (option hreply) :=
  fun s => (match alookup h (https s) with Some r => h_reply r | None => None end, set_https (adel h (https s)) s, []).

(* ---- read loops ----  `ep` identifies the connection (its queue) the loop was started for *)
Definition read_final (me : tid) (ep : N) : M unit :=
  (* report a transport error if nobody has disconnected this connection yet (fix D33: this connection, not a later one) *)
  (s1 <- getst ;;
   match state s1 with
   | Connected => if N.eqb (qepoch s1) ep then modst (set_state Disconnecting) ;;; disc_event RTransportError ;;; reset else ret tt
   | _ => ret tt
   end) ;;; finish me.
Definition read_epilogue (me : tid) (ep : N) : M unit :=
  (* after the loop: wait for the write loop of the moment *)
  s <- getst ;;
  match write_task s with
  | Some w => a <- alive w ;; if a then block me (TRJoinW w ep) else read_final me ep
  | None => read_final me ep
  end.

Definition read_poll_next (me : tid) (ep : N) : M unit :=
  s <- getst ;;
  match state s, write_task s with
  | Connected, Some _ =>
    h <- http_request me KindPoll [] ;; t <- new_timer (poll_timeout s) ;; block me (TRGet h t ep)
  | _, _ => read_epilogue me ep
  end.

Definition read_poll_reply (me : tid) (ep : N) (tout : bool) (h : hid) : M unit :=
  r <- http_take h ;;
  match (if tout then Some HFail else r) with
  | None => ret tt                                        (* spurious wake-up: cannot happen *)
  | Some (HOk l) => receive_all me l ;;; read_poll_next me ep
  | Some _ => q_put QEnd ;;; read_epilogue me ep
  end.

Definition ws_take (c : cid) : M (option (option frame)) :=
  w <- gws c ;;
  if w_cli_closed w || (w_srv_closed w && match w_inbox w with [] => true | _ => false end) then ret (Some None)
  else match w_inbox w with
       | f :: r => pws c {| w_inbox := r; w_srv_closed := w_srv_closed w; w_cli_closed := w_cli_closed w; w_waiter := None |} ;;; ret (Some (Some f))
       | [] => ret None
       end.
Definition ws_wait (me : tid) (c : cid) (k : task) : M unit :=
  w <- gws c ;; pws c {| w_inbox := w_inbox w; w_srv_closed := w_srv_closed w; w_cli_closed := w_cli_closed w; w_waiter := Some me |} ;;; block me k.

(* `top` = at the head of `while self.state == 'connected'`; otherwise recv() has just returned *)
Fixpoint read_ws_loop (fuel : nat) (me : tid) (ep : N) (c : cid) (top : bool) : M unit :=
  match fuel with
  | O => emit OOutOfFuel
  | S f =>
    s <- getst ;;
    if top && negb (match state s with Connected => true | _ => false end) then read_epilogue me ep
    else
      x <- ws_take c ;;
      match x with
      | None => t <- new_timer (interval s + ptimeout s) ;; ws_wait me c (TRWs c t ep)
      | Some None => q_put QEnd ;;; read_epilogue me ep
      | Some (Some FrGarbage) => q_put QEnd ;;; read_epilogue me ep
      | Some (Some (FrPk p)) => receive_packet me p ;;; read_ws_loop f me ep c true
      end
  end.

(* ---- write loop ---- *)
Fixpoint take_batch (n : nat) (q : list qi) (acc : list ck) : list ck * list qi :=
  match n, q with
  | O, _ => (acc, q)
  | _, [] => (acc, [])
  | S n', QEnd :: r => (acc, r)                    (* the end marker inside a batch is dropped *)
  | S n', QP p :: r => take_batch n' r (acc ++ [p])
  end.
Definition BATCH : nat := 16.

Fixpoint ws_send_all (c : cid) (l : list ck) : M bool :=
  match l with
  | [] => ret true
  | p :: r => ok <- ws_can_send c ;; if ok then emit (OWsSend c (WPk p)) ;;; ws_send_all c r else ret false
  end.

(* the write loop.  `top` = at the head of `while self.state == 'connected'`; otherwise the blocking get has just returned
   (or timed out) and the batch is processed whatever the state has become meanwhile *)
Fixpoint write_loop (fuel : nat) (me : tid) (ep : N) (top : bool) (tout : bool) : M unit :=
  match fuel with
  | O => emit OOutOfFuel
  | S f =>
    s <- getst ;;
    if top && negb (match state s with Connected => N.eqb (qepoch s) ep | _ => false end) then finish me
    else if negb (N.eqb (qepoch s) ep) then finish me       (* woken by the time-out on a queue nobody writes to any more *)
    else
      match queue s with
      | [] =>
        if tout then finish me
        else (t <- new_timer (poll_timeout s) ;; modst (set_getter (Some me)) ;;; block me (TWGet t ep))
      | QEnd :: r => modst (set_queue r) ;;; finish me
      | QP p :: r =>
        let '(batch, rest) := take_batch (pred BATCH) r [p] in
        modst (set_queue rest) ;;;
        match transport s with
        | Some TrWebsocket =>
          match ws s with
          | Some c => ok <- ws_send_all c batch ;; if ok then write_loop f me ep true false else finish me
          | None => finish me
          end
        | _ =>
          h <- http_request me KindPost batch ;; t <- new_timer (cc_request_timeout cfg) ;; block me (TWPost h t (length batch) ep)
        end
      end
  end.
Definition write_post_reply (me : tid) (ep : N) (tout : bool) (h : hid) : M unit :=
  r <- http_take h ;;
  match (if tout then Some HFail else r) with
  | None => ret tt
  | Some (HOk _) | Some HGarbage => s <- getst ;; write_loop (S (S (length (queue s)))) me ep true false
  | Some HStatus => finish me ;;; modst (set_write None)
  | Some HFail => finish me
  end.

(* ---- connect ---- *)
Definition start_loops (ws_mode : bool) : M unit :=
  w <- spawn TWriteStart ;; modst (set_write (Some w)) ;;;
  r <- spawn (TReadStart ws_mode) ;; modst (set_read (Some r)).

Definition conn_fail (me : tid) (call : N) (r : callres) : M unit := emit (ORet call r) ;;; finish me.
Definition conn_ok (me : tid) (call : N) : M unit := emit (ORet call ROk) ;;; finish me.

Definition ws_connect (me : tid) (call : N) (upgrade : bool) : M unit :=
  fun s => let c := ncid s in
           let '(t, s1, _) := new_timer (cc_request_timeout cfg) (set_ncid (N.succ c) s) in
           (tt, set_tasks (aset me {| t_task := TCWsConn call c upgrade t; t_tout := false |} (tasks s1)) s1, [OWsConnect c upgrade]).

(* the connect handler may call disconnect() *)
Definition connect_event (me : tid) : M unit :=
  emit (OEv EvConnect) ;;;
  if cc_connect_handler_disconnects cfg then (disconnect_core me false RClient ;;; ret tt) else ret tt.

Definition after_open_polling (me : tid) (call : N) (rest : list spk) : M unit :=
  receive_all me rest ;;;
  s <- getst ;;
  match state s with
  | Connected =>
    if upgrades_ws s && existsb (fun x => match x with TrWebsocket => true | _ => false end) (transports s)
    then ws_connect me call (sid_set s)
    else start_loops false ;;; conn_ok me call
  | _ => conn_ok me call         (* the connection ended while its handshake was being handled (fix D38): connect() is done *)
  end.

Definition open_reply (me : tid) (call : N) (tout : bool) (h : hid) : M unit :=
  r <- http_take h ;;
  match (if tout then Some HFail else r) with
  | None => ret tt
  | Some (HOk (KOpen true u i t :: rest)) =>
    modst (fun s => set_state Connected (set_transport (Some TrPolling) (set_sid true (set_timing i t u s)))) ;;;
    connect_event me ;;; after_open_polling me call rest
  | Some HFail | Some HStatus => reset ;;; conn_fail me call RConnectionError
  | Some _ => conn_fail me call RConnectionError            (* 2xx reply that is not a valid handshake: nothing had been touched *)
  end.

Definition ws_established (me : tid) (call : N) (c : cid) : M unit :=
  modst (set_ws (Some c)) ;;; start_loops true ;;; conn_ok me call.

Definition hs_timer : M (option timer) :=
  if cq_handshake_recv_timeout (cc_quirks cfg) then (t <- new_timer (cc_request_timeout cfg) ;; ret (Some t)) else ret None.

Definition wsconn_reply (me : tid) (call : N) (tout : bool) (c : cid) (upgrade : bool) : M unit :=
  s <- getst ;;
  match (if tout then Some false else alookup c (wsconn_result s)) with
  | None => ret tt
  | Some false =>
    if upgrade then (start_loops false ;;; conn_ok me call) else (conn_fail me call RConnectionError)
  | Some true =>
    pws c {| w_inbox := []; w_srv_closed := false; w_cli_closed := false; w_waiter := None |} ;;;
    if upgrade then (emit (OWsSend c WProbe) ;;; t <- hs_timer ;; ws_wait me c (TCProbe call c t))
    else (t <- hs_timer ;; ws_wait me c (TCOpenRecv call c t))
  end.

Definition probe_reply (me : tid) (call : N) (tout : bool) (c : cid) : M unit :=
  x <- (if tout then ret (Some None) else ws_take c) ;;
  match x with
  | None => ws_wait me c (TCProbe call c None)
  | Some (Some (FrPk KPongProbe)) =>
    ok <- ws_can_send c ;;
    if ok then (emit (OWsSend c WUpgrade) ;;; modst (set_transport (Some TrWebsocket)) ;;; ws_established me call c)
    else (start_loops false ;;; conn_ok me call)
  | Some _ => start_loops false ;;; conn_ok me call                 (* anything else, undecodable included: stay on polling *)
  end.

Definition openrecv_reply (me : tid) (call : N) (tout : bool) (c : cid) : M unit :=
  x <- (if tout then ret (Some None) else ws_take c) ;;
  match x with
  | None => ws_wait me c (TCOpenRecv call c None)
  | Some (Some (FrPk (KOpen true u i t))) =>
    modst (fun s => set_ws (Some c) (set_state Connected (set_transport (Some TrWebsocket) (set_sid true (set_timing i t u s))))) ;;;
    connect_event me ;;; ws_established me call c
  | Some _ => conn_fail me call RConnectionError                      (* not a well-formed OPEN (fix of D27) *)
  end.

(* ---- application calls ---- *)
Inductive api := AConnect (trs : list tr) | ASend (m : N) (binary : bool) | ADisconnect | AWait.

Definition run_api (me : tid) (call : N) (x : api) : M unit :=
  match x with
  | AConnect trs =>
    s <- getst ;;
    match state s with
    | Disconnected =>
      modst (fun s => bump_epoch (set_queue [] (set_getter None (set_transports trs s)))) ;;;
      match trs with
      | TrWebsocket :: _ => ws_connect me call false
      | _ => h <- http_request me KindOpen [] ;; t <- new_timer (cc_request_timeout cfg) ;; block me (TCOpenGet call h t trs)
      end
    | _ => conn_fail me call RValueError
    end
  | ASend m b => send_packet (CkMsg m b) ;;; emit (ORet call ROk) ;;; finish me
  | ADisconnect =>
    w <- disconnect_core me false RClient ;;
    match w with Some rt => block me (TDJoin (DJApi call) rt) | None => emit (ORet call ROk) ;;; finish me end
  | AWait =>
    s <- getst ;;
    match read_task s with
    | Some r => a <- alive r ;; if a then block me (TWait call r) else (emit (ORet call ROk) ;;; finish me)
    | None => emit (ORet call ROk) ;;; finish me
    end
  end.

Definition echo_mid (m : N) : N := (1000000 + m)%N.

Definition run_task (me : tid) (e : tentry) : M unit :=
  match t_task e with
  | TCOpenGet call h _ _ => open_reply me call (t_tout e) h
  | TCWsConn call c upgrade _ => wsconn_reply me call (t_tout e) c upgrade
  | TCProbe call c _ => probe_reply me call (t_tout e) c
  | TCOpenRecv call c _ => openrecv_reply me call (t_tout e) c
  | TReadStart false => s <- getst ;; read_poll_next me (qepoch s)
  | TReadStart true => s <- getst ;; match ws s with Some c => w <- gws c ;; read_ws_loop (S (S (length (w_inbox w)))) me (qepoch s) c true | None => read_epilogue me (qepoch s) end
  | TRGet h _ ep => read_poll_reply me ep (t_tout e) h
  | TRWs c _ ep =>
    if t_tout e then (q_put QEnd ;;; read_epilogue me ep)
    else (w <- gws c ;; read_ws_loop (S (S (length (w_inbox w)))) me ep c false)
  | TRJoinW w ep => a <- alive w ;; if a then block me (TRJoinW w ep) else read_final me ep
  | TWriteStart => s <- getst ;; write_loop (S (S (length (queue s)))) me (qepoch s) true false
  | TWGet _ ep => s <- getst ;; (if N.eqb (qepoch s) ep then modst (set_getter None) else ret tt) ;;; write_loop (S (S (length (queue s)))) me ep false (t_tout e)
  | TWPost h _ _ ep => write_post_reply me ep (t_tout e) h
  | TDJoin k r =>
    a <- alive r ;;
    if a then block me (TDJoin k r)
    else disconnect_finish ;;; (match k with DJApi call => emit (ORet call ROk) | DJHandler => ret tt end) ;;; finish me
  | THMsg m a =>
    emit (OEv (EvMessage m)) ;;;
    match a with
    | HNone | HRaise => finish me
    | HSend => send_packet (CkMsg (echo_mid m) false) ;;; finish me
    | HDisc => w <- disconnect_core me false RClient ;; match w with Some rt => block me (TDJoin DJHandler rt) | None => finish me end
    end
  | TWait call r =>
    a <- alive r ;;
    if a then block me (TWait call r) else (emit (ORet call ROk) ;;; finish me)
  end.

Fixpoint settle (fuel : nat) : M unit :=
  match fuel with
  | O => s <- getst ;; match runq s with [] => ret tt | _ => emit OOutOfFuel end
  | S f =>
    s <- getst ;;
    match runq s with
    | [] => ret tt
    | t :: rq =>
      modst (set_runq rq) ;;;
      match alookup t (tasks s) with
      | Some e => run_task t e ;;; settle f
      | None => settle f
      end
    end
  end.

Definition timer_of (k : task) : option timer :=
  match k with
  | TCOpenGet _ _ t _ | TCWsConn _ _ _ t | TRGet _ t _ | TRWs _ t _ | TWGet t _ | TWPost _ t _ _ => Some t
  | TCProbe _ _ t | TCOpenRecv _ _ t => t
  | _ => None
  end.
Definition timer_lt (a b : timer) : bool := Z.ltb (fst a) (fst b) || (Z.eqb (fst a) (fst b) && N.ltb (snd a) (snd b)).
Fixpoint next_timer (l : list (tid * tentry)) (best : option (tid * timer)) : option (tid * timer) :=
  match l with
  | [] => best
  | (t, e) :: r =>
    match timer_of (t_task e) with
    | Some tm => if t_tout e then next_timer r best
                 else match best with
                      | Some (_, b) => if timer_lt tm b then next_timer r (Some (t, tm)) else next_timer r best
                      | None => next_timer r (Some (t, tm))
                      end
    | None => next_timer r best
    end
  end.
Definition FUEL : nat := 300.
Fixpoint advance (fuel : nat) (target : Z) : M unit :=
  match fuel with
  | O => emit OOutOfFuel
  | S f =>
    settle FUEL ;;;
    s <- getst ;;
    match next_timer (tasks s) None with
    | Some (t, tm) =>
      if Z.leb (fst tm) target then
        modst (fun s => set_now (Z.max (now s) (fst tm)) s) ;;;
        modst (fun s => match alookup t (tasks s) with
                        | Some e => set_tasks (aset t {| t_task := t_task e; t_tout := true |} (tasks s)) s
                        | None => s end) ;;;
        wake t ;;; advance f target
      else modst (set_now target)
    | None => modst (set_now target)
    end
  end.

(* ---- stimuli: the application and the network ---- *)
Inductive op :=
| OpCall (call : N) (x : api)
| OpReply (h : hid) (r : hreply)
| OpWsAnswer (c : cid) (accept : bool)
| OpWsFrame (c : cid) (f : frame)
| OpWsClose (c : cid)
| OpAdvance (dt : Z)
| OpWsFrameClose (c : cid) (f : frame).       (* the peer sends a frame and closes the connection at once: what the client sends next fails *)

Definition apply_op (o : op) : M unit :=
  match o with
  | OpCall call x =>
    s <- getst ;;
    let me := ntid s in
    modst (fun s => set_tasks (aset me {| t_task := TWriteStart; t_tout := false |} (tasks s)) (set_ntid (N.succ me) s)) ;;;
    run_api me call x ;;; settle FUEL
  | OpReply h r =>
    s <- getst ;;
    match alookup h (https s) with
    | Some rec => modst (set_https (aset h {| h_owner := h_owner rec; h_reply := Some r |} (https s))) ;;; wake (h_owner rec) ;;; settle FUEL
    | None => ret tt
    end
  | OpWsAnswer c a =>
    s <- getst ;;
    modst (set_wres (aset c a (wsconn_result s))) ;;;
    wake_all (flat_map (fun e => match t_task (snd e) with TCWsConn _ c' _ _ => if N.eqb c c' then [fst e] else [] | _ => [] end) (tasks s)) ;;;
    settle FUEL
  | OpWsFrame c f =>
    w <- gws c ;;
    pws c {| w_inbox := w_inbox w ++ [f]; w_srv_closed := w_srv_closed w; w_cli_closed := w_cli_closed w; w_waiter := w_waiter w |} ;;;
    (match w_waiter w with Some t => wake t | None => ret tt end) ;;; settle FUEL
  | OpWsClose c =>
    w <- gws c ;;
    pws c {| w_inbox := w_inbox w; w_srv_closed := true; w_cli_closed := w_cli_closed w; w_waiter := w_waiter w |} ;;;
    (match w_waiter w with Some t => wake t | None => ret tt end) ;;; settle FUEL
  | OpAdvance dt => s <- getst ;; advance 1000 (now s + dt)
  | OpWsFrameClose c f =>
    w <- gws c ;;
    pws c {| w_inbox := w_inbox w ++ [f]; w_srv_closed := true; w_cli_closed := w_cli_closed w; w_waiter := w_waiter w |} ;;;
    (match w_waiter w with Some t => wake t | None => ret tt end) ;;; settle FUEL
  end.
End WithCfg.

Definition init : st :=
  {| now := 0; tseq := 0%N; ntid := 0%N; nhid := 0%N; ncid := 0%N; state := Disconnected; sid_set := false; transport := None;
     queue := []; getter := None; interval := 0; ptimeout := 0; upgrades_ws := false; transports := []; ws := None; read_task := None;
     write_task := None; conns := []; https := []; wsconn_result := []; tasks := []; runq := []; qepoch := 0%N |}.

Fixpoint run_ops (cfg : ccfg) (ops : list op) (s : st) : st * list (list out) :=
  match ops with
  | [] => (s, [])
  | o :: r => let '(_, s1, o1) := apply_op cfg o s in let '(s2, os) := run_ops cfg r s1 in (s2, o1 :: os)
  end.
