(* The tail of handle_request: optional compression of the response body (server.py / async_server.py,
   base_server._gzip/_deflate) and the JSONP wrapping of payload.encode.  gzip/zlib and the UTF-8 codec are
   standard-library oracles (Section variables). *)
From Coq Require Import NArith List Bool.
Import ListNotations.
From EIO Require Import Util Strings Jsonp.
Open Scope N_scope.

Inductive enc := Gzip | Deflate.
Definition t_gzip : text := [103; 122; 105; 112].
Definition t_deflate : text := [100; 101; 102; 108; 97; 116; 101].
Definition enc_of_token (t : text) : option enc :=
  if eqbl t t_gzip then Some Gzip else if eqbl t t_deflate then Some Deflate else None.

(* [e.split(';')[0].strip() for e in header.split(',')] *)
Definition tokens (accept : text) : list text := map (fun e => strip (first_field 59 e)) (split_on 44 accept).
Fixpoint first_enc (l : list text) : option enc :=
  match l with [] => None | t :: r => match enc_of_token t with Some e => Some e | None => first_enc r end end.
Definition pick_encoding (accept : option text) : option enc :=
  first_enc (tokens (match accept with Some a => a | None => [] end)).

Section Transform.
  Variable compress : enc -> list N -> list N.

  Definition transform (compression : bool) (threshold : N) (accept : option text) (body : list N) : list N * option enc :=
    if compression && (threshold <=? N.of_nat (length body)) then
      match pick_encoding accept with Some e => (compress e body, Some e) | None => (body, None) end
    else (body, None).

  (* the whole response path for a packet payload: JSONP wrap, UTF-8, compression *)
  Variable utf8enc : text -> list N.
  Definition respond (jsonp : option text) (compression : bool) (threshold : N) (accept : option text) (payload : text)
    : list N * option enc :=
    transform compression threshold accept
      (utf8enc (match jsonp with Some ix => jsonp_wrap ix payload | None => payload end)).

  (* what the client does with it *)
  Variable decompress : enc -> list N -> list N.
  Variable utf8dec : list N -> text.
  Definition client_text (r : list N * option enc) : text :=
    utf8dec (match snd r with Some e => decompress e (fst r) | None => fst r end).
End Transform.
