(* C15 — every request and API call completes with a well-formed gateway response.  Model: theories/Server.v.
   The completion of whole histories (no worker left blocked, validators of the WSGI / ASGI call sequences) is established by the
   differential run; proved here: the immediate, single, well-formed answer of every request the decision refuses, and of API calls
   on ids that are not in the table. *)
From Coq Require Import NArith List Bool.
Import ListNotations.
From EIO Require Import Server ServerInv ServerProofs ServerReasons ServerResp ServerOnce.
Open Scope N_scope.

Theorem c15_refused_answered_once : forall cfg me r q s x,
  decide cfg q (valof (lookup_view cfg q s)) = DRefuse x -> outof (handle_request cfg me r q s) = [OResp r x].
Proof. exact refused_only_answers. Qed.

Theorem c15_refusal_status_set : forall cfg q v x, decide cfg q v = DRefuse x -> x = R400 \/ x = R405.
Proof. exact refusal_status. Qed.

(* application calls on an id that is not in the table return at once *)
Theorem c15_api_on_absent_returns : forall cfg me a i s, nmem i (table s) = false ->
  outof (run_api cfg me a (ApiGetSession (SKnown i)) s) = [OApi a AKeyError] /\
  outof (run_api cfg me a (ApiSaveSession (SKnown i) 0) s) = [OApi a AKeyError] /\
  outof (run_api cfg me a (ApiTransport (SKnown i)) s) = [OApi a AKeyError] /\
  store (stof (run_api cfg me a (ApiGetSession (SKnown i)) s)) = store s.
Proof. exact api_keyerror_on_absent. Qed.
Theorem c15_send_on_absent_returns : forall cfg i m s, nmem i (table s) = false -> srv_send cfg i m s = (tt, s, []).
Proof. exact send_to_absent_is_noop. Qed.

(* responses are never misdirected (every step of every task, every request on arrival, every application call, from any state):
   what runs on behalf of request r - the request itself, its long poll, its WebSocket handler - answers only r; what runs on
   behalf of no request (writers, heartbeats, the monitor, message handlers, closers, application calls) answers nothing *)
Theorem c15_request_answers_only_itself : forall cfg me r q s,
  Forall (ronly (Some r)) (ServerReasons.outof (handle_request cfg me r q s)).
Proof. exact request_answers_only_itself. Qed.
Theorem c15_task_answers_only_its_request : forall cfg me e s,
  Forall (ronly (rid_of (t_task e))) (ServerReasons.outof (run_task cfg me e s)).
Proof. exact task_answers_only_its_request. Qed.
Theorem c15_api_answers_no_request : forall cfg me a x s, Forall (ronly None) (ServerReasons.outof (run_api cfg me a x s)).
Proof. exact api_answers_no_request. Qed.

(* exactly-one response, the safety half: for every history whose request ids are pairwise distinct (the gateway hands every request
   its own) and every schedule - cancellations and time-outs included - no request is answered twice *)
Theorem c15_answered_at_most_once : forall cfg ops, NoDup (rids ops) ->
  forall r, (nr r (snd (run_sched cfg ops (init cfg) [])) <= 1)%nat.
Proof. exact answered_at_most_once. Qed.

Print Assumptions c15_refused_answered_once.
Print Assumptions c15_refusal_status_set.
Print Assumptions c15_api_on_absent_returns.
Print Assumptions c15_send_on_absent_returns.
Print Assumptions c15_request_answers_only_itself.
Print Assumptions c15_task_answers_only_its_request.
Print Assumptions c15_api_answers_no_request.
Print Assumptions c15_answered_at_most_once.
