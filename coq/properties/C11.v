(* C11 — OPEN handshake reflects configuration and honours the connect handler.  Models: theories/Open.v (packet fields,
   cookie), Server.v (handle_connect). *)
From Coq Require Import ZArith NArith List Bool.
Import ListNotations.
From EIO Require Import Strings Open OpenProofs Server.

Theorem c11_open_fields : forall c ws,
  oi_ping_timeout (open_packet c ws) = ms_of_ticks (oc_timeout c) /\
  oi_ping_interval (open_packet c ws) = ms_of_ticks (oc_interval c + oc_grace c) /\
  oi_max_payload (open_packet c ws) = oc_maxbuf c /\
  (oi_upgrades (open_packet c ws) = true <->
     oc_allow_upgrades c = true /\ ws = false /\ oc_websocket c = true /\ oc_driver_ws c = true).
Proof. exact open_fields. Qed.

(* milliseconds: exact for whole and half seconds, and in general the floor of 1000 x seconds *)
Theorem c11_milliseconds : (forall k, ms_of_ticks (1024 * k) = 1000 * k)%Z /\ (forall k, ms_of_ticks (512 * k) = 500 * k)%Z /\
  (forall t, 0 <= t -> 1024 * ms_of_ticks t <= 1000 * t < 1024 * (ms_of_ticks t + 1))%Z.
Proof. exact (conj ms_whole_seconds (conj ms_half_seconds ms_exact)). Qed.

(* an upgrade is advertised only if the upgrade request would pass the transport gate *)
Theorem c11_advertised_upgrade_is_accepted : forall (cfg : config) c ws,
  oc_websocket c = c_websocket cfg -> oi_upgrades (open_packet c ws) = true ->
  transport_allowed cfg TrWebsocket = true /\ ws = false.
Proof. exact advertised_is_accepted. Qed.

(* the cookie: present exactly when configured, and it starts with <name>=<sid> *)
Theorem c11_cookie_iff : forall c sid, cookie_header c sid <> None <-> c <> CkNone.
Proof. exact cookie_iff. Qed.
Theorem c11_cookie_value : forall c sid h, cookie_header c sid = Some h ->
  exists n rest, h = n ++ [61%N] ++ sid ++ rest /\
    match c with CkName x => n = x | CkDict (Some x) _ => n = x | CkDict None _ => n = t_io | CkNone => False end.
Proof. exact cookie_starts_with_name_sid. Qed.
Theorem c11_cookie_attribute : forall k v r, render_attrs ((k, v) :: r) =
  match v with
  | VBool true => semi_sp ++ k ++ render_attrs r
  | VBool false => render_attrs r
  | VStr s => semi_sp ++ k ++ [61%N] ++ s ++ render_attrs r
  end.
Proof. exact render_attrs_spec. Qed.

Print Assumptions c11_open_fields.
Print Assumptions c11_milliseconds.
Print Assumptions c11_advertised_upgrade_is_accepted.
Print Assumptions c11_cookie_iff.
Print Assumptions c11_cookie_value.
Print Assumptions c11_cookie_attribute.
