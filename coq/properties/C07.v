(* C07 — heartbeat: the liveness test.  Model: theories/Server.v (expired, ping_fire, check_ping_timeout, svc_continue).
   The timed behaviour of whole histories (PING exactly ping_interval after OPEN / PONG, detection bound of the sweep) is
   established by the differential run on timed scenarios; what is proved here is the test every timeout decision goes through. *)
From Coq Require Import ZArith NArith List Bool.
Import ListNotations.
From EIO Require Import Server ServerInv ServerProofs ServerCor ServerTiming ServerUpg ServerHb ServerSvc ServerTimers.

(* a session is found timed out exactly when a PING is outstanding and strictly more than ping_timeout has passed since it *)
Theorem c07_expired_iff : forall cfg ss t,
  expired cfg ss t = true <-> exists p, s_lastp ss = Some p /\ (t - p > c_timeout cfg)%Z.
Proof. exact expired_iff. Qed.

(* a peer whose PONG has been processed is never found timed out, whatever its other traffic and whenever it is looked at *)
Theorem c07_live_peer_never_dropped : forall cfg ss t, s_lastp ss = None -> expired cfg ss t = false.
Proof. exact not_expired_after_pong. Qed.

(* up to and including the deadline the peer is not timed out; one tick later it is *)
Theorem c07_deadline_exact : forall cfg ss t p, s_lastp ss = Some p ->
  ((t <= p + c_timeout cfg)%Z -> expired cfg ss t = false) /\ ((t > p + c_timeout cfg)%Z -> expired cfg ss t = true).
Proof. exact deadline_exact. Qed.

(* the step that follows the handshake or a processed PONG: no PING is outstanding any more, nothing is emitted, no time passes,
   and the task now waits for a timer due exactly ping_interval later (whose firing sends the next PING) *)
Theorem c07_ping_rearmed : forall cfg me e i s, t_task e = TPingStart i ->
  let s' := stof (run_task cfg me e s) in
  alookup me (tasks s') = Some {| t_task := TPing i (now s + c_interval cfg, tseq s)%Z; t_tout := false |} /\
  now s' = now s /\ outof (run_task cfg me e s) = [] /\
  (forall ss, alookup i (store s) = Some ss -> exists ss', alookup i (store s') = Some ss' /\ s_lastp ss' = None /\ s_q ss' = s_q ss /\ s_closed ss' = s_closed ss).
Proof. exact ping_rearmed. Qed.

(* for every history in which the clock does not run backwards (requests, frames, closes, API calls, cancellations, clock
   advances) and every schedule: the heartbeat of an open session never stalls.  As long as the session is neither closing nor
   closed, either a PING is outstanding (last_ping is set, so by c07_expired_iff every liveness test - each send, each sweep
   of the monitor - finds the peer timed out once ping_timeout has passed without a PONG), or a task exists that re-arms the
   heartbeat now or sends the next PING no later than ping_interval from now (c07_ping_rearmed: exactly ping_interval after
   the OPEN / the processed PONG) *)
Theorem c07_heartbeat_never_stalls : forall cfg ops, forward_history ops ->
  let s := fst (run_sched cfg ops (init cfg) []) in
  forall i ss, alookup i (store s) = Some ss -> s_closing ss = false -> s_closed ss = false ->
  (exists p, s_lastp ss = Some p) \/ ping_pending cfg s i.
Proof. exact heartbeat_never_stalls. Qed.

(* for every history and every schedule: with client monitoring configured, the service task that sweeps the sessions for heartbeat
   time-outs never goes away - it is still to be started (no session has connected yet), about to run for the first time, or
   waiting for its next visit / its next idle period *)
Theorem c07_monitor_never_dies : forall cfg ops, c_monitor cfg = true ->
  let s := fst (run_sched cfg ops (init cfg) []) in
  svc_pending s = true \/ exists t e, alookup t (tasks s) = Some e /\ monitor_task s t e.
Proof. exact monitor_never_dies. Qed.

(* the last sentence of the property, in the model and for every history with a forward-running clock and every schedule: every
   pending long poll (the GET of a polling client, the wait of a WebSocket writer) is due within ping_interval + ping_timeout ... *)
Theorem c07_poll_deadline_bounded : forall cfg ops, forward_history ops ->
  let s := fst (run_sched cfg ops (init cfg) []) in
  forall t e i k tm, alookup t (tasks s) = Some e -> t_task e = TPoll i k tm -> (fst tm <= now s + (c_interval cfg + c_timeout cfg))%Z.
Proof. exact poll_deadline_bounded. Qed.
(* ... the clock never skips a deadline: from ANY state, once it has been advanced by dt (and the model did not run out of fuel)
   nothing is left runnable, the clock stands at now + dt, and every timer still pending (poll time-out, next PING, next visit of the
   monitor, WebSocket read time-out) is due strictly later ... *)
Theorem c07_clock_honours_timers : forall cfg dt ch s, (0 <= dt)%Z ->
  let r := apply_op cfg (OpAdvance dt) ch s in
  ~ In OOutOfFuel (outof r) ->
  now (stof r) = (now s + dt)%Z /\ runq (stof r) = [] /\
  forall t e tm, alookup t (tasks (stof r)) = Some e -> timer_of (t_task e) = Some tm -> t_tout e = false -> (now s + dt < fst tm)%Z.
Proof. exact clock_honours_timers. Qed.
(* ... so no long poll outlives ping_interval + ping_timeout *)
Theorem c07_no_poll_outlives_timeout : forall cfg ops dt ch, forward_history ops -> (c_interval cfg + c_timeout cfg <= dt)%Z -> (0 <= dt)%Z ->
  let s := fst (run_sched cfg ops (init cfg) []) in
  let r := apply_op cfg (OpAdvance dt) ch s in
  ~ In OOutOfFuel (outof r) ->
  forall t e i k tm, alookup t (tasks s) = Some e -> t_task e = TPoll i k tm ->
  forall e', alookup t (tasks (stof r)) = Some e' -> t_tout e' = false -> t_task e' <> t_task e.
Proof. exact no_poll_outlives_timeout. Qed.

Print Assumptions c07_expired_iff.
Print Assumptions c07_live_peer_never_dropped.
Print Assumptions c07_deadline_exact.
Print Assumptions c07_ping_rearmed.
Print Assumptions c07_heartbeat_never_stalls.
Print Assumptions c07_monitor_never_dies.
Print Assumptions c07_poll_deadline_bounded.
Print Assumptions c07_clock_honours_timers.
Print Assumptions c07_no_poll_outlives_timeout.
