(* C12 — request admission: only well-addressed version-4 requests are let in.  Model: theories/Server.v (decide,
   lookup_view, handle_request). *)
From Coq Require Import NArith List Bool.
Import ListNotations.
From EIO Require Import Server ServerInv ServerProofs ServerUpg ServerIso.
Open Scope N_scope.

(* a request is refused exactly when it is not well addressed (protocol version when opening, allowed transport, live session,
   transport of the session or a WebSocket upgrade of it, numeric JSONP index, known method) *)
Theorem c12_let_in_iff_well_addressed : forall cfg q v, refused (decide cfg q v) = negb (well_addressed cfg q v).
Proof. exact let_in_iff_well_addressed. Qed.

(* refusals are 400; 405 only, and then always, for other methods *)
Theorem c12_refusal_status : forall cfg q v x, decide cfg q v = DRefuse x -> x = R400 \/ x = R405.
Proof. exact refusal_status. Qed.
Theorem c12_405_only_other_methods : forall cfg q v, decide cfg q v = DRefuse R405 -> r_method q = MOther.
Proof. exact status_405_only_for_other_methods. Qed.

(* a refused request emits its refusal and nothing else: no event, no packet *)
Theorem c12_refused_emits_only_refusal : forall cfg me r q s x,
  decide cfg q (valof (lookup_view cfg q s)) = DRefuse x -> outof (handle_request cfg me r q s) = [OResp r x].
Proof. exact refused_only_answers. Qed.

(* answering a refusal leaves every session record and the table as they are *)
Theorem c12_answer_no_effect : forall me r x s,
  outof (answer me r x s) = [OResp r x] /\ store (stof (answer me r x s)) = store s /\ table (stof (answer me r x s)) = table s.
Proof. exact answer_out. Qed.

(* a refused request has no effect at all (from any state): every session record - queue, transport flags, liveness, user data - is
   exactly as before, no session is created, and the table can only have lost an entry that was already closed *)
Theorem c12_refused_no_effect : forall cfg me r q s x, decide cfg q (valof (lookup_view cfg q s)) = DRefuse x ->
  store (stof (handle_request cfg me r q s)) = store s /\ nsid (stof (handle_request cfg me r q s)) = nsid s /\
  (forall i, nmem i (table (stof (handle_request cfg me r q s))) = true -> nmem i (table s) = true).
Proof. exact refused_no_effect. Qed.

Print Assumptions c12_let_in_iff_well_addressed.
Print Assumptions c12_refusal_status.
Print Assumptions c12_405_only_other_methods.
Print Assumptions c12_refused_emits_only_refusal.
Print Assumptions c12_answer_no_effect.
Print Assumptions c12_refused_no_effect.
