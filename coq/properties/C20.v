(* C20 — gateway middleware routes by path only and static files stay inside their roots.
   Model: theories/Static.v (static_files.py, middleware.py WSGIApp, asgi.py ASGIApp incl. lifespan). *)
From Coq Require Import NArith List Bool.
Import ListNotations.
From EIO Require Import Strings Static StaticProofs.
Open Scope N_scope.

(* the engine is reached exactly when the path lies under the (normalised) endpoint *)
Theorem c20_engine_iff_wsgi : forall exists_ ep m other path,
  route_wsgi exists_ ep m other path = Engine <-> is_prefix (norm_endpoint ep) path = true.
Proof. exact engine_iff_wsgi. Qed.
Theorem c20_engine_iff_asgi : forall exists_ ep m other http path,
  route_asgi exists_ (Some ep) m other http path = Engine <->
  is_prefix (norm_endpoint ep) (if ends_slash path then path else path ++ [SLASH]) = true.
Proof. exact engine_iff_asgi. Qed.

(* otherwise a file exactly when the static mapping matches and the file exists, else the wrapped app, else 404 *)
Theorem c20_route_wsgi : forall exists_ ep m other path,
  route_wsgi exists_ ep m other path =
    if is_prefix (norm_endpoint ep) path then Engine
    else match (match m with [] => None | _ => get_static_file path m end) with
         | Some (fn, ct) => if exists_ fn then File fn ct else if other then Other else NotFound
         | None => if other then Other else NotFound
         end.
Proof. exact route_wsgi_spec. Qed.
Theorem c20_file_served_wsgi : forall exists_ ep m other path fn ct, route_wsgi exists_ ep m other path = File fn ct ->
  get_static_file path m = Some (fn, ct) /\ exists_ fn = true /\ is_prefix (norm_endpoint ep) path = false.
Proof. exact file_served_wsgi. Qed.
Theorem c20_file_served_asgi : forall exists_ ep m other http path fn ct, route_asgi exists_ ep m other http path = File fn ct ->
  get_static_file path m = Some (fn, ct) /\ exists_ fn = true /\ http = true.
Proof. exact file_served_asgi. Qed.

(* the file served is the mapped file, or lies beneath the mapped directory: mapped name + a remainder of the request
   path without any '..' segment (+ the index file for a directory) *)
Theorem c20_contained : forall path m fn ct, get_static_file path m = Some (fn, ct) ->
  exists k e extra idx, In (k, e) m /\ has_dotdot extra = false /\
    fn = efile e ++ (if ends_slash (efile e) && starts_slash extra then tl extra else extra) ++ idx /\
    (idx = [] \/ (exists d, lookup_e [] m = Some d /\ idx = efile d) \/ (lookup_e [] m = None /\ idx = index_html)) /\
    (lookup_e path m = Some e -> extra = []).
Proof. exact contained. Qed.

Theorem c20_content_type : forall path m fn ct, get_static_file path m = Some (fn, ct) ->
  (exists k e, In (k, e) m /\ ectype e = Some ct) \/ ct = ctype_of_ext (ext_of fn).
Proof. exact content_type. Qed.

Theorem c20_lifespan : forall other s t evs,
  (other = true /\ s = None /\ t = None -> lifespan other s t evs = [Delegated]) /\
  (~ (other = true /\ s = None /\ t = None) -> lifespan other s t evs = lifespan_loop s t evs).
Proof. exact lifespan_spec. Qed.
Theorem c20_lifespan_startup : forall s t r, lifespan_loop s t (LStartup :: r) =
  match s with Some false => [StartupFailed] | _ => StartupComplete :: lifespan_loop s t r end.
Proof. exact lifespan_startup. Qed.
Theorem c20_lifespan_shutdown : forall s t r, lifespan_loop s t (LShutdown :: r) =
  match t with Some false => [ShutdownFailed] | _ => [ShutdownComplete] end.
Proof. exact lifespan_shutdown. Qed.

Print Assumptions c20_engine_iff_wsgi.
Print Assumptions c20_engine_iff_asgi.
Print Assumptions c20_route_wsgi.
Print Assumptions c20_file_served_wsgi.
Print Assumptions c20_file_served_asgi.
Print Assumptions c20_contained.
Print Assumptions c20_content_type.
Print Assumptions c20_lifespan.
Print Assumptions c20_lifespan_startup.
Print Assumptions c20_lifespan_shutdown.
