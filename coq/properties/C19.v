(* C19 — response transformations (compression, JSONP) are lossless and well labelled.
   Models: theories/Transform.v (tail of handle_request) and Jsonp.v (payload.encode's JSONP form, an evaluator
   of ECMAScript string literals).  gzip/zlib and the UTF-8 codec are oracles (O4). *)
From Coq Require Import NArith List Bool.
Import ListNotations.
From EIO Require Import Strings Jsonp JsonpProofs Transform TransformProofs.
Open Scope N_scope.

(* a Content-Encoding is declared iff compression is on, the body reached the threshold and the request offered it;
   the encoding chosen is the first offered token that is gzip or deflate *)
Theorem c19_encoding_declared_iff : forall compress c th acc body e,
  snd (transform compress c th acc body) = Some e <->
  c = true /\ th <= N.of_nat (length body) /\ pick_encoding acc = Some e.
Proof. exact declared_iff. Qed.

Theorem c19_first_offered : forall l e, first_enc l = Some e <->
  exists pre t post, l = pre ++ t :: post /\ enc_of_token t = Some e /\ Forall (fun x => enc_of_token x = None) pre.
Proof. exact first_enc_spec. Qed.

(* the body is the compressed original exactly when an encoding is declared; an undeclared body is the original *)
Theorem c19_body : forall compress c th acc body,
  fst (transform compress c th acc body) =
    match snd (transform compress c th acc body) with Some e => compress e body | None => body end.
Proof. exact body_spec. Qed.

(* undoing the declared encoding and the UTF-8 encoding gives back the payload text (resp. its JSONP statement) *)
Theorem c19_lossless : forall compress decompress utf8enc utf8dec,
  (forall e b, decompress e (compress e b) = b) -> (forall t, utf8dec (utf8enc t) = t) ->
  forall jsonp c th acc payload,
  client_text decompress utf8dec (respond compress utf8enc jsonp c th acc payload) =
    match jsonp with Some ix => jsonp_wrap ix payload | None => payload end.
Proof. exact lossless. Qed.

(* for every payload text and index, the JSONP body is exactly one statement ___eio[<index>]("<lit>"); whose string
   literal evaluates, by ECMAScript rules, to the payload (as UTF-16 code units) *)
Theorem c19_jsonp_complete : forall index payload, ~ In 93 index -> Forall codepoint payload ->
  parse_jsonp (jsonp_wrap index payload) = Some (index, flat_map utf16 payload).
Proof. exact jsonp_complete. Qed.

Theorem c19_jsonp_through_transformations : forall compress decompress utf8enc utf8dec,
  (forall e b, decompress e (compress e b) = b) -> (forall t, utf8dec (utf8enc t) = t) ->
  forall ix c th acc payload, ~ In 93 ix -> Forall codepoint payload ->
  parse_jsonp (client_text decompress utf8dec (respond compress utf8enc (Some ix) c th acc payload))
    = Some (ix, flat_map utf16 payload).
Proof. exact lossless_jsonp. Qed.

(* the pre-fix escaping (only the double quote) was not complete: a payload with a backslash is no statement *)
Theorem c19_jsonp_prefix_refuted : parse_jsonp (jsonp_wrap_old [49] [52; 92]) = None.
Proof. exact jsonp_old_refuted. Qed.

Print Assumptions c19_encoding_declared_iff.
Print Assumptions c19_first_offered.
Print Assumptions c19_body.
Print Assumptions c19_lossless.
Print Assumptions c19_jsonp_complete.
Print Assumptions c19_jsonp_through_transformations.
Print Assumptions c19_jsonp_prefix_refuted.
