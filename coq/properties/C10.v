(* C10 — clients and servers of this package interoperate.  The composition itself is observed on the implementations
   (harness/props/c10.py wires the real clients to the real servers); proved here is what the two halves must agree on:
   neither side builds a payload the other side's decoder refuses for its size, batching keeps order and loses nothing, and a
   payload within the limit decodes to exactly the packets encoded.  Models: Client.v, Server.v, Payload.v (each tied to the code
   by its own correspondence, re-run by the C10 check). *)
From Coq Require Import NArith List Bool.
Import ListNotations.
From EIO Require Import Util Strings Packet PacketProofs Payload PayloadProofs Server Client ClientProofs InteropProofs.

(* a client never puts more packets into one POST body than a server decodes *)
Theorem c10_client_batch_fits_server : forall p r, (length (fst (take_batch (pred BATCH) r [p])) <= DECODE_LIMIT)%nat.
Proof. exact batch_bound. Qed.

(* a server never returns more packets from one poll than a client decodes *)
Theorem c10_server_poll_fits_client : forall fuel i acc s, (length acc <= MAX_BATCH)%nat ->
  (length (fst (fst (drain fuel i acc s))) <= DECODE_LIMIT)%nat.
Proof. exact drain_bound. Qed.

(* client batching keeps the application's order and loses nothing *)
Theorem c10_client_batch_order : forall n q acc, fst (take_batch n q acc) ++ pks (snd (take_batch n q acc)) = acc ++ pks q.
Proof. exact take_batch_order. Qed.

Section C10.
  Variable J : Type.
  Variable jkind : J -> kind.
  Variable dumps : J -> text.
  Variable loads : text -> lres J.
  Variable digit : N -> option N.
  Variable form_d : text -> option text.

  (* a body of at most BATCH packets / a poll result of at most MAX_BATCH packets decodes on the other side to the same packets,
     in order, with equal payloads (standard-library oracles as in C01/C02) *)
  Theorem c10_client_body_decodes :
    (forall t, (t < 10)%N -> digit (48 + t)%N = Some t) ->
    (forall v, jkind v = KArr \/ jkind v = KObj -> loads (dumps v) = LVal v) ->
    loads [] = LValueError ->
    (forall v, nosep (dumps v)) ->
    forall ps, Forall (sendable J jkind loads) ps -> (length ps <= BATCH)%nat ->
    payload_decode J jkind loads digit form_d DECODE_LIMIT (payload_encode J dumps ps) = POk (map (expected J jkind loads) ps).
  Proof. exact (client_body_decodes J jkind dumps loads digit form_d). Qed.

  Theorem c10_server_payload_decodes :
    (forall t, (t < 10)%N -> digit (48 + t)%N = Some t) ->
    (forall v, jkind v = KArr \/ jkind v = KObj -> loads (dumps v) = LVal v) ->
    loads [] = LValueError ->
    (forall v, nosep (dumps v)) ->
    forall ps, Forall (sendable J jkind loads) ps -> (length ps <= MAX_BATCH)%nat ->
    payload_decode J jkind loads digit form_d DECODE_LIMIT (payload_encode J dumps ps) = POk (map (expected J jkind loads) ps).
  Proof. exact (server_payload_decodes J jkind dumps loads digit form_d). Qed.
End C10.

Print Assumptions c10_client_batch_fits_server.
Print Assumptions c10_server_poll_fits_client.
Print Assumptions c10_client_batch_order.
Print Assumptions c10_client_body_decodes.
Print Assumptions c10_server_payload_decodes.
