(* C16 — session table hygiene: dead ids are inert, sessions isolated, nothing leaks.  Model: theories/Server.v. *)
From Coq Require Import NArith List Bool.
Import ListNotations.
From EIO Require Import Server ServerInv ServerProofs ServerCor ServerUpg ServerSvc ServerIso.
Open Scope N_scope.

(* send() to an id that is not in the table is a silent no-op: the whole state is unchanged, nothing is emitted *)
Theorem c16_dead_send_noop : forall cfg i m s, nmem i (table s) = false -> srv_send cfg i m s = (tt, s, []).
Proof. exact send_to_absent_is_noop. Qed.

(* send() to a closed entry still in the table: the entry is removed, nothing else changes, nothing is emitted *)
Theorem c16_closed_send_noop : forall cfg i m s ss, nmem i (table s) = true -> alookup i (store s) = Some ss -> s_closed ss = true ->
  let r := srv_send cfg i m s in stof r = set_table (nrem i (table s)) s /\ outof r = [].
Proof. exact send_to_closed_is_noop. Qed.

(* get_session / save_session / transport on such an id raise KeyError and leave every session record alone *)
Theorem c16_dead_api_keyerror : forall cfg me a i s, nmem i (table s) = false ->
  outof (run_api cfg me a (ApiGetSession (SKnown i)) s) = [OApi a AKeyError] /\
  outof (run_api cfg me a (ApiSaveSession (SKnown i) 0) s) = [OApi a AKeyError] /\
  outof (run_api cfg me a (ApiTransport (SKnown i)) s) = [OApi a AKeyError] /\
  store (stof (run_api cfg me a (ApiGetSession (SKnown i)) s)) = store s.
Proof. exact api_keyerror_on_absent. Qed.

(* session ids are issued in increasing order and a record, once created, keeps its id: ids are never reused (every reachable state) *)
Theorem c16_ids_never_reused : forall cfg ops,
  let '(s, acc) := run_sched cfg ops (init cfg) [] in forall i ss, alookup i (store s) = Some ss -> i < nsid s.
Proof. exact ids_never_reused. Qed.

(* every reachable state, every schedule: an id in the session table has a record and was issued by this server *)
Theorem c16_table_ids_have_records : forall cfg ops,
  let s := fst (run_sched cfg ops (init cfg) []) in
  forall i, nmem i (table s) = true -> alookup i (store s) <> None /\ i < nsid s.
Proof. exact table_ids_have_records. Qed.

(* the visit of the monitor to a session that has ended removes its entry from the table and touches no other entry; together with
   c07_monitor_never_dies (the monitor keeps visiting) and c07_clock_honours_timers (no visit is skipped) every ended session
   leaves the table at the monitor's next visit to it *)
Theorem c16_monitor_visit_reaps_closed : forall cfg fuel me i r iv s, s_closed (cur i s) = true ->
  table (stof (svc_continue cfg fuel me (i :: r) iv s)) = nrem i (table s).
Proof. exact visit_closed_reaps. Qed.

(* sessions are isolated: a step that runs on behalf of one session never touches the record (queue, flags, counters, user data)
   of any other session - whatever the packets carry and whatever the handlers of its messages do (send, disconnect, raise).
   (i) its tasks: the long poll, the WebSocket handler and writer, the heartbeat, a message handler, a close of it *)
Theorem c16_task_isolated : forall cfg me e i s, session_of (t_task e) = Some i ->
  forall j, j <> i -> cur j (stof (run_task cfg me e s)) = cur j s.
Proof. exact task_isolated. Qed.
(* (ii) a request that names it: poll, post, upgrade *)
Theorem c16_request_isolated : forall cfg me r q i s,
  decision_session (decide cfg q (valof (lookup_view cfg q s))) = Some i ->
  forall j, j <> i -> cur j (stof (handle_request cfg me r q s)) = cur j s.
Proof. exact request_isolated. Qed.
(* (iii) send / disconnect(sid) / transport / get_session / save_session for it *)
Theorem c16_api_isolated : forall cfg me a x i s, api_session x = Some i ->
  forall j, j <> i -> cur j (stof (run_api cfg me a x s)) = cur j s.
Proof. exact api_isolated. Qed.

Print Assumptions c16_dead_send_noop.
Print Assumptions c16_closed_send_noop.
Print Assumptions c16_dead_api_keyerror.
Print Assumptions c16_ids_never_reused.
Print Assumptions c16_table_ids_have_records.
Print Assumptions c16_monitor_visit_reaps_closed.
Print Assumptions c16_task_isolated.
Print Assumptions c16_request_isolated.
Print Assumptions c16_api_isolated.
