(* C03 — server-to-client messages: exactly once, in order, one transport, across upgrade.
   Model: theories/Server.v (both servers, `quirks`), every history of stimuli and every schedule (run_sched takes, for each
   stimulus, the list of choices saying which runnable task runs next).  Ghost fields of a session: s_accepted = messages whose
   send() passed the liveness test, in call order; s_taken = messages handed by the queue to a poll / to the WebSocket writer. *)
From Coq Require Import NArith List Bool.
Import ListNotations.
From EIO Require Import Server ServerInv ServerProofs ServerCor ServerDelivery ServerReasons ServerResp ServerWs.
Open Scope N_scope.

(* conservation, for every reachable state: what was accepted is what was taken followed by what is still queued *)
Theorem c03_conservation : forall cfg ops,
  let '(s, acc) := run_sched cfg ops (init cfg) [] in
  forall i ss, alookup i (store s) = Some ss -> s_accepted ss = s_taken ss ++ mids_of (s_q ss).
Proof. exact conservation. Qed.

(* at most once: if the application's messages are distinct, nothing is taken from the queue twice, and nothing taken is still queued *)
Theorem c03_at_most_once : forall cfg ops,
  let '(s, acc) := run_sched cfg ops (init cfg) [] in
  forall i ss, alookup i (store s) = Some ss -> NoDup (s_accepted ss) ->
    NoDup (s_taken ss) /\ (forall m, In m (s_taken ss) -> ~ In m (mids_of (s_q ss))).
Proof. exact at_most_once. Qed.

(* in order: what was taken is a prefix of what was accepted *)
Theorem c03_in_order : forall cfg ops,
  let '(s, acc) := run_sched cfg ops (init cfg) [] in
  forall i ss, alookup i (store s) = Some ss -> exists rest, s_accepted ss = s_taken ss ++ rest.
Proof. exact in_order. Qed.

(* send() to an id that is not in the table reaches nobody: no queue changes (no cross-delivery through stale ids) *)
Theorem c03_send_to_absent_is_noop : forall cfg i m s, nmem i (table s) = false -> srv_send cfg i m s = (tt, s, []).
Proof. exact send_to_absent_is_noop. Qed.

(* the initial state satisfies the invariant (non-vacuity of the induction) *)
Example c03_init : forall cfg, Inv (init cfg) [].
Proof. exact Inv_init. Qed.

(* the link between the ghost field and the wire, for long polls: the packets a poll answers with are the head of the session's
   queue, in order, and exactly these are recorded as taken - with the conservation invariant: a poll delivers the next messages
   in the order in which send() accepted them, and a message leaves the queue only inside such an answer (or through the writer) *)
Theorem c03_poll_response_is_taken : forall cfg me e i r t s, t_task e = TPoll i (PKGet r) t -> has i s = true ->
  forall l, In (OResp r (R200 l)) (ServerInv.outof (run_task cfg me e s)) ->
  s_taken (cur i (ServerInv.stof (run_task cfg me e s))) = s_taken (cur i s) ++ smids l /\
  mids_of (s_q (cur i s)) = smids l ++ mids_of (s_q (cur i (ServerInv.stof (run_task cfg me e s)))).
Proof. exact poll_response_is_taken. Qed.

(* ... and for the WebSocket writer: what a step of the writer puts on the WebSocket - followed by what a failed send dropped -
   is what the step took from the head of the session's queue, in order, and exactly that is recorded as taken *)
Theorem c03_writer_sends_what_it_takes : forall cfg me e i c rd s, has i s = true ->
  (t_task e = TWriterStart i c rd \/ exists t, t_task e = TPoll i (PKWriter c rd) t) ->
  exists took lost,
    s_taken (cur i (ServerInv.stof (run_task cfg me e s))) = s_taken (cur i s) ++ smids took /\
    mids_of (s_q (cur i s)) = smids took ++ mids_of (s_q (cur i (ServerInv.stof (run_task cfg me e s)))) /\
    wsent c (ServerInv.outof (run_task cfg me e s)) ++ lost = took.
Proof. exact writer_sends_what_it_takes. Qed.

(* one transport, the right one (every step, from any state): the handshake, the reader and the writer of WebSocket connection c accept,
   write to and close only c; a request on arrival touches only the WebSocket that came with it; long polls, heartbeats, the monitor,
   message handlers, closers and application calls touch no WebSocket at all *)
Theorem c03_task_touches_only_its_websocket : forall cfg me e s,
  Forall (wonly (conn_of (t_task e))) (ServerReasons.outof (run_task cfg me e s)).
Proof. exact task_touches_only_its_websocket. Qed.
Theorem c03_request_touches_only_its_websocket : forall cfg me r q s,
  Forall (wonly (r_conn q)) (ServerReasons.outof (handle_request cfg me r q s)).
Proof. exact request_touches_only_its_websocket. Qed.
Theorem c03_api_touches_no_websocket : forall cfg me a x s, Forall (wonly None) (ServerReasons.outof (run_api cfg me a x s)).
Proof. exact api_touches_no_websocket. Qed.

Print Assumptions c03_conservation.
Print Assumptions c03_at_most_once.
Print Assumptions c03_in_order.
Print Assumptions c03_send_to_absent_is_noop.
Print Assumptions c03_poll_response_is_taken.
Print Assumptions c03_writer_sends_what_it_takes.
Print Assumptions c03_task_touches_only_its_websocket.
Print Assumptions c03_request_touches_only_its_websocket.
Print Assumptions c03_api_touches_no_websocket.
