(* C03 — server-to-client messages: exactly once, in order, one transport, across upgrade.
   Model: theories/Server.v (both servers, `quirks`), every history of stimuli and every schedule (run_sched takes, for each
   stimulus, the list of choices saying which runnable task runs next).  Ghost fields of a session: s_accepted = messages whose
   send() passed the liveness test, in call order; s_taken = messages handed by the queue to a poll / to the WebSocket writer. *)
From Coq Require Import NArith List Bool.
Import ListNotations.
From EIO Require Import Server ServerInv ServerProofs ServerCor.
Open Scope N_scope.

(* conservation, for every reachable state: what was accepted is what was taken followed by what is still queued *)
Theorem c03_conservation : forall cfg ops,
  let '(s, acc) := run_sched cfg ops (init cfg) [] in
  forall i ss, alookup i (store s) = Some ss -> s_accepted ss = s_taken ss ++ mids_of (s_q ss).
Proof. exact conservation. Qed.

(* at most once: if the application's messages are distinct, nothing is taken from the queue twice, and nothing taken is still queued *)
Theorem c03_at_most_once : forall cfg ops,
  let '(s, acc) := run_sched cfg ops (init cfg) [] in
  forall i ss, alookup i (store s) = Some ss -> NoDup (s_accepted ss) ->
    NoDup (s_taken ss) /\ (forall m, In m (s_taken ss) -> ~ In m (mids_of (s_q ss))).
Proof. exact at_most_once. Qed.

(* in order: what was taken is a prefix of what was accepted *)
Theorem c03_in_order : forall cfg ops,
  let '(s, acc) := run_sched cfg ops (init cfg) [] in
  forall i ss, alookup i (store s) = Some ss -> exists rest, s_accepted ss = s_taken ss ++ rest.
Proof. exact in_order. Qed.

(* send() to an id that is not in the table reaches nobody: no queue changes (no cross-delivery through stale ids) *)
Theorem c03_send_to_absent_is_noop : forall cfg i m s, nmem i (table s) = false -> srv_send cfg i m s = (tt, s, []).
Proof. exact send_to_absent_is_noop. Qed.

(* the initial state satisfies the invariant (non-vacuity of the induction) *)
Example c03_init : forall cfg, Inv (init cfg) [].
Proof. exact Inv_init. Qed.

Print Assumptions c03_conservation.
Print Assumptions c03_at_most_once.
Print Assumptions c03_in_order.
Print Assumptions c03_send_to_absent_is_noop.
