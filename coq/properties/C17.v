(* C17 — session ids are unique, URL-safe and embed 96 random bits.
   This file holds only the property theorems (each closed by [exact]) and their
   Print Assumptions.  Model: theories/Sid.v  (base_server.py: generate_id). *)
From Coq Require Import NArith List.
Import ListNotations.
From EIO Require Import Sid SidProofs.
Open Scope N_scope.

(* every issued id is 20 characters over [A-Za-z0-9_-], for every 12-byte random string and counter *)
Theorem c17_format : forall r n, rnd12 r -> n < 16777216 ->
  length (generate_id r n) = 20%nat /\ forallb idchar (generate_id r n) = true.
Proof. exact format. Qed.

(* the id determines the 96 random bits and the counter: nothing is lost, all 96 bits are embedded *)
Theorem c17_embeds_random : forall r n r' n', rnd12 r -> rnd12 r' -> n < 16777216 -> n' < 16777216 ->
  generate_id r n = generate_id r' n' -> r = r' /\ n = n'.
Proof. exact injective. Qed.

(* no two of any 2^24 consecutively issued ids are equal, from any start counter (so across the wrap),
   whatever the random source returned for either *)
Theorem c17_unique : forall c i j (ri rj : list N),
  c < 16777216 -> rnd12 ri -> rnd12 rj -> (i < j)%nat -> N.of_nat j < 16777216 ->
  generate_id ri (iter_seq i c) <> generate_id rj (iter_seq j c).
Proof. exact unique_in_window. Qed.

(* the counter advances by one modulo 2^24 and stays in range *)
Theorem c17_counter_step : forall c, c < 16777216 ->
  next_seq c < 16777216 /\ next_seq c = (c + 1) mod 16777216 /\ (c = 16777215 -> next_seq c = 0).
Proof. exact counter_step. Qed.

(* non-vacuity: a concrete 12-byte string meets the hypotheses *)
Example c17_nonvacuous : rnd12 [0;1;2;3;4;5;6;7;8;9;10;255] /\ 16777215 < 16777216.
Proof. exact nonvacuous. Qed.

Print Assumptions c17_format.
Print Assumptions c17_embeds_random.
Print Assumptions c17_unique.
Print Assumptions c17_counter_step.
