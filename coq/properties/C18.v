(* C18 — threaded and asyncio servers are observationally equivalent.  One model, Server.v, describes both; the places where the
   two are written differently are the fields of `quirks`.  Proved: what does not depend on the quirks.  The agreement of whole
   histories is established by running every history on both implementations and the model (three-way comparison). *)
From Coq Require Import NArith List Bool.
Import ListNotations.
From EIO Require Import Server ServerInv ServerProofs.
Open Scope N_scope.

(* the admission decision is the same function for both servers *)
Theorem c18_same_admission : forall cfg cfg' q v,
  c_polling cfg' = c_polling cfg -> c_websocket cfg' = c_websocket cfg -> decide cfg' q v = decide cfg q v.
Proof. intros cfg cfg' q v. exact (decide_quirk_independent cfg cfg' q v). Qed.

(* the invariants of C03 / C05 hold for every setting of the quirks, i.e. for both servers *)
Theorem c18_invariants_for_both : forall cfg ops,
  let '(s, acc) := run_sched cfg ops (init cfg) [] in Inv s acc.
Proof. exact reachable_inv. Qed.

Print Assumptions c18_same_admission.
Print Assumptions c18_invariants_for_both.
