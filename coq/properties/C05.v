(* C05 — session events: connect first, one disconnect with the true reason, none after.
   Model: theories/Server.v; invariants over (state, all outputs so far) for every history and schedule. *)
From Coq Require Import NArith List Bool Lia.
Import ListNotations.
From EIO Require Import Server ServerInv ServerProofs ServerCor ServerReasons ServerIso ServerEvt.
Open Scope N_scope.

(* the disconnect event is emitted at most once per session, whatever ends it and however the causes race *)
Theorem c05_disconnect_once : forall cfg ops i,
  let '(s, acc) := run_sched cfg ops (init cfg) [] in (count_disc i acc <= 1)%nat.
Proof. exact disconnect_once. Qed.

(* no disconnect event for a session that is not (at least) closing; closed implies closing *)
Theorem c05_disconnect_only_when_closing : forall cfg ops,
  let '(s, acc) := run_sched cfg ops (init cfg) [] in
  forall i ss, alookup i (store s) = Some ss ->
    (s_closing ss = false -> count_disc i acc = 0%nat) /\ (s_closed ss = true -> s_closing ss = true).
Proof. exact disconnect_only_when_closing. Qed.

(* nothing received after the session has ended is acted upon: receive on a closed session refuses, changes nothing, emits nothing *)
Theorem c05_nothing_after_close : forall cfg i p s, s_closed (cur i s) = true -> receive cfg i p s = (false, s, []).
Proof. exact receive_on_closed. Qed.

(* the only place where a disconnect event is emitted marks the session as closing in the same step *)
Theorem c05_begin_close : forall i r s ss, alookup i (store s) = Some ss ->
  begin_close i r s = (tt, set_store (aset i (w_closing true ss) (store s)) s, [OEvent i (EDisconnect r)]).
Proof. exact begin_close_run. Qed.

(* The reason of a disconnect event tells what ended the session.  One step of a task can only give the reasons of its kind:
   a long poll 'transport error' (and the refusal that follows, as the server); a WebSocket handler 'client disconnect' (a CLOSE
   packet), 'ping timeout' (a send that finds the peer dead), 'server disconnect' (a handler that disconnects) or, in its
   epilogue, 'transport close'; the heartbeat and the monitor 'ping timeout'; disconnect() 'server disconnect'; the writer none. *)
Theorem c05_reason_by_task : forall cfg me e s, Forall (among (rin (reasons_of (t_task e)))) (ServerReasons.outof (run_task cfg me e s)).
Proof. exact task_reasons. Qed.
(* ... a request on arrival never 'transport error' ... *)
Theorem c05_reason_by_request : forall cfg me r q s, Forall (among (rin WS)) (ServerReasons.outof (handle_request cfg me r q s)).
Proof. exact request_reasons. Qed.
(* ... an application call: send() 'ping timeout', disconnect() 'server disconnect', the others nothing *)
Theorem c05_reason_by_call : forall cfg me a x s,
  Forall (among (rin (match x with ApiSend _ _ => [RPingTimeout] | ApiDisconnect _ => [RServer] | _ => [] end))) (ServerReasons.outof (run_api cfg me a x s)).
Proof. exact api_reasons. Qed.
(* 'client disconnect' only for a CLOSE packet of the client *)
Theorem c05_client_disconnect_needs_close : forall cfg i p s,
  Forall (among (rin (match p with CClose => [RClient] | _ => [RPingTimeout; RServer] end))) (ServerReasons.outof (receive cfg i p s)).
Proof. exact receive_reason. Qed.
(* 'ping timeout' from a send only if a PING has been outstanding for longer than ping_timeout *)
Theorem c05_ping_timeout_only_if_expired : forall cfg i p s,
  Exists (fun o => match o with OEvent _ (EDisconnect RPingTimeout) => True | _ => False end) (ServerReasons.outof (sock_send cfg i p s)) ->
  expired cfg (match alookup i (store s) with Some x => x | None => new_sess end) (now s) = true.
Proof. exact ping_timeout_only_if_expired. Qed.

(* events are never misattributed (every step, from any state): what runs on behalf of one session - its long poll, its WebSocket handler
   and writer, its heartbeat, a handler of one of its messages, a close of it, a request or an application call that names it - fires
   connect / message / disconnect events for that session only, whatever its packets carry and whatever their handlers do *)
Theorem c05_task_events_own_session : forall cfg me e i s, session_of (t_task e) = Some i ->
  Forall (eonly i) (ServerReasons.outof (run_task cfg me e s)).
Proof. exact task_events_own_session. Qed.
Theorem c05_request_events_own_session : forall cfg me r q i s,
  decision_session (decide cfg q (ServerReasons.valof (lookup_view cfg q s))) = Some i ->
  Forall (eonly i) (ServerReasons.outof (handle_request cfg me r q s)).
Proof. exact request_events_own_session. Qed.
Theorem c05_api_events_own_session : forall cfg me a x i s, api_session x = Some i ->
  Forall (eonly i) (ServerReasons.outof (run_api cfg me a x s)).
Proof. exact api_events_own_session. Qed.

Print Assumptions c05_disconnect_once.
Print Assumptions c05_disconnect_only_when_closing.
Print Assumptions c05_nothing_after_close.
Print Assumptions c05_begin_close.
Print Assumptions c05_reason_by_task.
Print Assumptions c05_reason_by_request.
Print Assumptions c05_reason_by_call.
Print Assumptions c05_client_disconnect_needs_close.
Print Assumptions c05_ping_timeout_only_if_expired.
Print Assumptions c05_task_events_own_session.
Print Assumptions c05_request_events_own_session.
Print Assumptions c05_api_events_own_session.
