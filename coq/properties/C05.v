(* C05 — session events: connect first, one disconnect with the true reason, none after.
   Model: theories/Server.v; invariants over (state, all outputs so far) for every history and schedule. *)
From Coq Require Import NArith List Bool Lia.
Import ListNotations.
From EIO Require Import Server ServerInv ServerProofs ServerCor.
Open Scope N_scope.

(* the disconnect event is emitted at most once per session, whatever ends it and however the causes race *)
Theorem c05_disconnect_once : forall cfg ops i,
  let '(s, acc) := run_sched cfg ops (init cfg) [] in (count_disc i acc <= 1)%nat.
Proof. exact disconnect_once. Qed.

(* no disconnect event for a session that is not (at least) closing; closed implies closing *)
Theorem c05_disconnect_only_when_closing : forall cfg ops,
  let '(s, acc) := run_sched cfg ops (init cfg) [] in
  forall i ss, alookup i (store s) = Some ss ->
    (s_closing ss = false -> count_disc i acc = 0%nat) /\ (s_closed ss = true -> s_closing ss = true).
Proof. exact disconnect_only_when_closing. Qed.

(* nothing received after the session has ended is acted upon: receive on a closed session refuses, changes nothing, emits nothing *)
Theorem c05_nothing_after_close : forall cfg i p s, s_closed (cur i s) = true -> receive cfg i p s = (false, s, []).
Proof. exact receive_on_closed. Qed.

(* the only place where a disconnect event is emitted marks the session as closing in the same step *)
Theorem c05_begin_close : forall i r s ss, alookup i (store s) = Some ss ->
  begin_close i r s = (tt, set_store (aset i (w_closing true ss) (store s)) s, [OEvent i (EDisconnect r)]).
Proof. exact begin_close_run. Qed.

Print Assumptions c05_disconnect_once.
Print Assumptions c05_disconnect_only_when_closing.
Print Assumptions c05_nothing_after_close.
Print Assumptions c05_begin_close.
