(* C04 — client-to-server packets are acted on exactly once, in order, by type.  Model: theories/Server.v (receive, receive_all,
   handle_request). *)
From Coq Require Import NArith List Bool.
Import ListNotations.
From EIO Require Import Server ServerInv ServerProofs.
Open Scope N_scope.

(* a MESSAGE on a live session, synchronous handlers: exactly one message event, emitted first, carrying the payload *)
Theorem c04_message_once : forall cfg i payload a s, c_async_handlers cfg = false -> s_closed (cur i s) = false ->
  exists rest, outof (receive cfg i (CMsg payload a) s) = OEvent i (EMessage payload) :: rest /\ Forall not_msg rest /\
               valof (receive cfg i (CMsg payload a) s) = true.
Proof. exact receive_message_sync. Qed.

(* packets of a body are processed in wire order; processing stops at the first refused packet *)
Theorem c04_in_order : forall cfg i p r s,
  receive_all cfg i (p :: r) s =
    (let '(ok, s1, o1) := receive cfg i p s in
     if ok then (let '(ok2, s2, o2) := receive_all cfg i r s1 in (ok2, s2, o1 ++ o2)) else (false, s1, o1 ++ [])).
Proof. exact receive_all_cons. Qed.

(* an undefined packet type is refused without any effect of its own *)
Theorem c04_undefined_type_refused : forall cfg i s, s_closed (cur i s) = false -> receive cfg i CBad s = (false, s, []).
Proof. exact receive_bad. Qed.

(* a POST body that cannot be decoded (incl. too many packets) or is declared too long fires no message event *)
Theorem c04_unreadable_no_message : forall cfg me r q, r_method q = MPost -> r_body q = BTooLong \/ r_body q = BUndecodable ->
  outs_all not_msg (handle_request cfg me r q).
Proof. exact post_unreadable_no_message. Qed.

(* a POST naming an unknown or closed session is refused and emits only its refusal *)
Theorem c04_refused_emits_only_refusal : forall cfg me r q s x,
  decide cfg q (valof (lookup_view cfg q s)) = DRefuse x -> outof (handle_request cfg me r q s) = [OResp r x].
Proof. exact refused_only_answers. Qed.

Print Assumptions c04_message_once.
Print Assumptions c04_in_order.
Print Assumptions c04_undefined_type_refused.
Print Assumptions c04_unreadable_no_message.
Print Assumptions c04_refused_emits_only_refusal.
