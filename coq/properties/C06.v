(* C06 — WebSocket upgrade completes only via the probe handshake; failure is harmless.  Model: theories/Server.v
   (ws_begin, ws_probe, ws_upgr, decide). *)
From Coq Require Import NArith List Bool.
Import ListNotations.
From EIO Require Import Server ServerInv ServerProofs ServerCor ServerUpg.
Open Scope N_scope.

(* any first frame other than PING 'probe' leaves the session on polling: not upgrading, upgraded flag untouched *)
Theorem c06_wrong_first_frame : forall cfg me i r c k f rest s ss,
  alookup c (conns s) = Some k -> k_sclosed k = false -> k_inbox k = f :: rest -> alookup i (store s) = Some ss ->
  f <> FPing true ->
  flags_after i (ws_probe cfg me i r c) s = (false, s_upgraded ss).
Proof. exact probe_wrong_frame. Qed.

(* every failure path of the handshake goes through upgrade_fail, which clears `upgrading` and nothing else of the session *)
Theorem c06_failure_resets : forall me i r x s ss, alookup i (store s) = Some ss ->
  flags_after i (upgrade_fail me i r x) s = (false, s_upgraded ss).
Proof. exact upgrade_fail_flags. Qed.

(* a WebSocket upgrade is only ever attempted when the websocket transport is allowed *)
Theorem c06_transport_config : forall cfg q v i, decide cfg q v = DUpgrade i -> c_websocket cfg = true.
Proof. exact websocket_upgrade_needs_transport. Qed.
Theorem c06_disallowed_transport_never_used : forall cfg q v,
  transport_allowed cfg (r_transport q) = false -> refused (decide cfg q v) = true.
Proof. exact disallowed_transport_refused. Qed.

(* the invariants of C03 hold across the upgrade: nothing queued is lost or duplicated by the hand-over *)
Theorem c06_queue_conserved_across_upgrade : forall cfg ops,
  let '(s, acc) := run_sched cfg ops (init cfg) [] in
  forall i ss, alookup i (store s) = Some ss -> s_accepted ss = s_taken ss ++ mids_of (s_q ss).
Proof. exact conservation. Qed.

(* for every history (requests, frames, closes, API calls, cancellations, clock advances) and every schedule: a session is
   marked `upgrading` - the state in which polling requests are refused - only while a task of the WebSocket handshake for
   that very session exists (waiting for the PING probe or for the UPGRADE packet).  A handshake that failed, was abandoned,
   was cancelled or lost a race therefore never leaves the mark behind *)
Theorem c06_upgrading_only_during_handshake : forall cfg ops,
  let s := fst (run_sched cfg ops (init cfg) []) in
  forall i ss, alookup i (store s) = Some ss -> s_upgrading ss = true ->
  exists t e, alookup t (tasks s) = Some e /\ handshake_task_of i e.
Proof. exact upgrading_only_during_handshake. Qed.
Theorem c06_no_handshake_polling_usable : forall cfg ops,
  let s := fst (run_sched cfg ops (init cfg) []) in
  forall i ss, alookup i (store s) = Some ss ->
  (forall t e, alookup t (tasks s) = Some e -> ~ handshake_task_of i e) -> s_upgrading ss = false.
Proof. exact no_handshake_not_upgrading. Qed.

Print Assumptions c06_wrong_first_frame.
Print Assumptions c06_failure_resets.
Print Assumptions c06_transport_config.
Print Assumptions c06_disallowed_transport_never_used.
Print Assumptions c06_queue_conserved_across_upgrade.
Print Assumptions c06_upgrading_only_during_handshake.
Print Assumptions c06_no_handshake_polling_usable.
