(* C08 — client connection lifecycle.  Model: theories/Client.v (one cooperative-task model of Client and AsyncClient),
   tied to both clients by harness/props/c08.py on every run. *)
From Coq Require Import ZArith NArith List Bool.
Import ListNotations.
From EIO Require Import Client ClientProofs.
Open Scope N_scope.

(* send() on a client that is not connected is a no-op: nothing queued, nothing emitted, state untouched *)
Theorem c08_send_noop_when_not_connected : forall p s, connected s = false -> send_packet p s = (tt, s, []).
Proof. exact send_not_connected. Qed.

(* disconnect() on a client that is not connected emits nothing (no event, no CLOSE, no socket closed) and touches neither the
   queue nor the tasks nor the sockets: a disconnected client stays disconnected with no sid, and while another disconnect() is
   in progress nothing changes at all *)
Theorem c08_disconnect_noop_when_not_connected : forall me abort r s, connected s = false ->
  let x := disconnect_core me abort r s in
  outof x = [] /\ queue (stof x) = queue s /\ tasks (stof x) = tasks s /\ conns (stof x) = conns s /\
  match state s with
  | Disconnecting => stof x = s
  | _ => state (stof x) = Disconnected /\ sid_set (stof x) = false
  end.
Proof. exact disconnect_not_connected. Qed.

(* once the connection has ended nothing more of a payload is handled: no event, no PONG, no state change *)
Theorem c08_nothing_after_the_end : forall me l s, connected s = false -> receive_all me l s = (tt, s, []).
Proof. exact receive_all_not_connected. Qed.

Print Assumptions c08_send_noop_when_not_connected.
Print Assumptions c08_disconnect_noop_when_not_connected.
Print Assumptions c08_nothing_after_the_end.
