(* C08 — client connection lifecycle.  Model: theories/Client.v (one cooperative-task model of Client and AsyncClient),
   tied to both clients by harness/props/c08.py on every run. *)
From Coq Require Import ZArith NArith List Bool.
Import ListNotations.
From EIO Require Import Client ClientProofs ClientInv ClientReasons.
Open Scope N_scope.

(* send() on a client that is not connected is a no-op: nothing queued, nothing emitted, state untouched *)
Theorem c08_send_noop_when_not_connected : forall p s, connected s = false -> send_packet p s = (tt, s, []).
Proof. exact send_not_connected. Qed.

(* disconnect() on a client that is not connected emits nothing (no event, no CLOSE, no socket closed) and touches neither the
   queue nor the tasks nor the sockets: a disconnected client stays disconnected with no sid, and while another disconnect() is
   in progress nothing changes at all *)
Theorem c08_disconnect_noop_when_not_connected : forall me abort r s, connected s = false ->
  let x := disconnect_core me abort r s in
  outof x = [] /\ queue (stof x) = queue s /\ tasks (stof x) = tasks s /\ conns (stof x) = conns s /\
  match state s with
  | Disconnecting => stof x = s
  | _ => state (stof x) = Disconnected /\ sid_set (stof x) = false
  end.
Proof. exact disconnect_not_connected. Qed.

(* once the connection has ended nothing more of a payload is handled: no event, no PONG, no state change *)
Theorem c08_nothing_after_the_end : forall me l s, connected s = false -> receive_all me l s = (tt, s, []).
Proof. exact receive_all_not_connected. Qed.

(* For every configuration and every history of stimuli (application calls, server answers of every kind, socket events, clock
   advances; every schedule the model's scheduler produces) in which the application does not start a connect() while another
   one is still waiting for its handshake:  the connect / disconnect events alternate, beginning with a connect event - so every
   established connection gets at most one disconnect event, none is reported for a connection that was not established, and
   no connect event comes before the previous connection's disconnect event; the client reports 'connected' exactly when the
   last of these events is a connect event (so a connection whose disconnect event has fired is never reported connected and
   every connection that is no longer 'connected' has had its disconnect event); a client without session id is disconnected. *)
Theorem c08_lifecycle_alternates : forall cfg ops, polite cfg ops init = true ->
  let s := fst (run_ops cfg ops init) in let outs := concat (snd (run_ops cfg ops init)) in
  alt false (lc outs) /\ ClientInv.connected s = last_or false (lc outs) /\ (sid_set s = false -> state s = Disconnected).
Proof. exact lifecycle_alternates. Qed.

(* the invariant behind it, for every reachable state: at most one connect() waits for its handshake and then the client is
   disconnected; at most one disconnect() waits for the read loop and then the client is disconnecting *)
Theorem c08_reachable_invariant : forall cfg ops s acc, Inv s acc -> polite cfg ops s = true ->
  Inv (fst (run_ops cfg ops s)) (acc ++ concat (snd (run_ops cfg ops s))).
Proof. exact reachable_inv. Qed.

(* the hypothesis is satisfiable by a history with two connections, one ended by the server, one by the application *)
Theorem c08_nonvacuous : polite ex_cfg ex_ops init = true /\ lc (concat (snd (run_ops ex_cfg ex_ops init))) = [true; false; true; false].
Proof. exact polite_history. Qed.

(* The reason of a disconnect event tells who ended the connection.  One step of a task can only give the reasons of its kind:
   a read loop 'transport error' or - when it handles packets - 'server disconnect'; the handshake of connect() 'client disconnect'
   (the connect handler disconnected) or 'server disconnect' (a CLOSE packet came with the OPEN packet); a message handler that
   calls disconnect() 'client disconnect'; the write loop, wait(), the upgrade probe and a pending disconnect() none at all. *)
Theorem c08_reason_by_task : forall cfg t e s, Forall (among (reasons_of (t_task e))) (ClientReasons.outof (run_task cfg t e s)).
Proof. exact task_reasons. Qed.

(* ... an application call only 'client disconnect', and only disconnect() *)
Theorem c08_reason_by_call : forall cfg me call x s,
  Forall (among (match x with ADisconnect => is_client | _ => none_of end)) (ClientReasons.outof (run_api cfg me call x s)).
Proof. exact api_reasons. Qed.

(* ... and 'server disconnect' is given only while a payload that holds a CLOSE packet is handled *)
Theorem c08_server_disconnect_needs_close : forall me l s,
  Forall (if has_close l then only RServer else nodisc) (ClientReasons.outof (receive_all me l s)).
Proof. exact receive_all_reason. Qed.

Print Assumptions c08_send_noop_when_not_connected.
Print Assumptions c08_disconnect_noop_when_not_connected.
Print Assumptions c08_nothing_after_the_end.
Print Assumptions c08_lifecycle_alternates.
Print Assumptions c08_reachable_invariant.
Print Assumptions c08_nonvacuous.
Print Assumptions c08_reason_by_task.
Print Assumptions c08_reason_by_call.
Print Assumptions c08_server_disconnect_needs_close.
