(* C09 — client protocol conduct.  Models: theories/Client.v, theories/Url.v; tied to both clients by harness/props/c09.py. *)
From Coq Require Import ZArith NArith List Bool.
Import ListNotations.
From EIO Require Import Util Strings Client ClientProofs ClientQueue Url UrlProofs.
Open Scope N_scope.

(* a connected client answers a PING by queueing exactly one PONG with the same data behind everything already queued *)
Theorem c09_pong_echo : forall me d s, connected s = true ->
  queue (stof (receive_packet me (KPing d) s)) = queue s ++ [QP (CkPong d)] /\ outof (receive_packet me (KPing d) s) = [].
Proof. exact ping_echo. Qed.

(* NOOP and unexpected packet types change nothing *)
Theorem c09_noop_and_unknown_ignored : forall me s, receive_packet me KNoop s = (tt, s, []) /\ receive_packet me KOther s = (tt, s, []) /\
  receive_packet me KPongProbe s = (tt, s, []).
Proof. exact noop_and_unknown_ignored. Qed.

(* batching neither loses, duplicates nor reorders: the batch followed by what stays queued is what was queued *)
Theorem c09_batch_order : forall n q acc, fst (take_batch n q acc) ++ pks (snd (take_batch n q acc)) = acc ++ pks q.
Proof. exact take_batch_order. Qed.

(* a batch never holds more packets than a server accepts in one body *)
Theorem c09_batch_bound : forall p r, (length (fst (take_batch (pred BATCH) r [p])) <= BATCH)%nat.
Proof. exact batch_bound. Qed.

(* the connection URL: scheme mapping, and the caller's query string kept in front of transport=...&EIO=4 *)
Theorem c09_url_scheme : forall ws scheme,
  scheme_for ws scheme =
    match ws, secure scheme with
    | false, false => t_http | false, true => t_https | true, false => t_ws | true, true => t_wss
    end.
Proof. exact scheme_table. Qed.

Theorem c09_url_query_kept : forall scheme netloc query path ws,
  exists pre post, engineio_url scheme netloc query path ws = pre ++ [47; 63] ++ query ++ post /\
    (query = [] -> post = [116;114;97;110;115;112;111;114;116;61] ++ (if ws then t_websocket else t_polling) ++ [38;69;73;79;61;52]) /\
    (query <> [] -> post = [38] ++ [116;114;97;110;115;112;111;114;116;61] ++ (if ws then t_websocket else t_polling) ++ [38;69;73;79;61;52]).
Proof. exact url_query_kept. Qed.

(* The send queue is a FIFO that only send() / PONG / CLOSE append to and only the write loop takes from.
   A step of any task other than the write loop - and any application call other than connect(), which starts a new queue -
   leaves the queue as it was or appends to it, and transmits nothing: *)
Theorem c09_only_the_write_loop_takes : forall cfg t e, is_write (t_task e) = false ->
  forall s, (exists suf, queue (ClientProofs.stof (run_task cfg t e s)) = queue s ++ suf) /\ txd (ClientProofs.outof (run_task cfg t e s)) = [].
Proof. exact nonwrite_appends. Qed.
Theorem c09_calls_append : forall cfg me call x, (match x with AConnect _ => False | _ => True end) ->
  forall s, (exists suf, queue (ClientProofs.stof (run_api cfg me call x s)) = queue s ++ suf) /\ txd (ClientProofs.outof (run_api cfg me call x s)) = [].
Proof. exact call_appends. Qed.

(* A step of the write loop transmits in queue order, exactly once each: what it put on the wire (POST bodies, WebSocket frames),
   followed by what a failed WebSocket send dropped, followed by what is still queued, is what was queued. *)
Theorem c09_write_loop_in_order : forall cfg t e s, is_write (t_task e) = true ->
  exists lost, txd (ClientProofs.outof (run_task cfg t e s)) ++ lost ++ pks (queue (ClientProofs.stof (run_task cfg t e s))) = pks (queue s).
Proof. exact write_conserves. Qed.

Print Assumptions c09_pong_echo.
Print Assumptions c09_noop_and_unknown_ignored.
Print Assumptions c09_batch_order.
Print Assumptions c09_batch_bound.
Print Assumptions c09_url_scheme.
Print Assumptions c09_url_query_kept.
Print Assumptions c09_only_the_write_loop_takes.
Print Assumptions c09_calls_append.
Print Assumptions c09_write_loop_in_order.
