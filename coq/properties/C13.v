(* C13 — origin policy is enforced before anything else and CORS headers never over-grant.
   Model: theories/Cors.v (base_server.py _cors_allowed_origins/_cors_headers, the gate opening handle_request). *)
From Coq Require Import NArith List Bool.
Import ListNotations.
From EIO Require Import Strings Cors CorsProofs.

(* a refused origin: the answer is the refusal and the server state is returned untouched, whatever the rest of
   request handling (session creation/lookup, handlers, transports) would have done *)
Theorem c13_gate_first : forall (S R : Type) c e (refusal : R) (rest : S -> S * R) st,
  gate_refuses c e = true -> with_gate c e refusal rest st = (st, refusal).
Proof. exact @gate_first. Qed.

(* exactly when: checking active, Origin present and non-empty, and not allowed *)
Theorem c13_gate_iff : forall c e, gate_refuses c e = true <->
  disabled c = false /\ exists x o, e_origin e = Some (x :: o) /\ origin_allowed c e (x :: o) = false.
Proof. exact gate_refuses_iff. Qed.

Theorem c13_no_origin_unaffected : forall (S R : Type) c e (refusal : R) (rest : S -> S * R) st,
  e_origin e = None \/ e_origin e = Some [] -> with_gate c e refusal rest st = rest st.
Proof. exact @no_origin_unaffected. Qed.

(* what is allowed under each configuration form *)
Theorem c13_allowed_sets : forall e o,
  (origin_allowed CDefault e o = true <-> In o (default_origins e)) /\
  origin_allowed CStar e o = true /\
  (forall s, origin_allowed (CStr s) e o = true <-> o = s) /\
  (forall l, origin_allowed (CList l) e o = true <-> In o l) /\
  (forall acc, e_origin e = Some o -> (origin_allowed (CPred acc) e o = true <-> In o acc)).
Proof.
  intros e o. exact (conj (default_allowed e o) (conj (star_allows e o) (conj (fun s => str_allows s e o)
        (conj (fun l => list_allows l e o) (fun acc => pred_allows acc e o))))).
Qed.

(* the default set: the request's own scheme://host, plus the forwarded variant (first comma field, stripped) *)
Theorem c13_default_origins : forall e,
  default_origins e =
    match e_host e with
    | None => []
    | Some h => (e_scheme e ++ sep3 ++ h) ::
       (if match e_xproto e, e_xhost e with None, None => false | _, _ => true end
        then [first_stripped (match e_xproto e with Some p => p | None => e_scheme e end) ++ sep3 ++
              first_stripped (match e_xhost e with Some x => x | None => h end)]
        else [])
    end.
Proof. exact default_origins_spec. Qed.

(* Access-Control-Allow-Origin only with the value of the request's own, allowed, Origin; at most once *)
Theorem c13_acao_sound : forall c cred e v, In (ACAO v) (cors_headers c cred e) ->
  e_origin e = Some v /\ origin_allowed c e v = true /\ disabled c = false.
Proof. exact acao_sound. Qed.
Theorem c13_acao_once : forall c cred e,
  (length (filter (fun h => match h with ACAO _ => true | _ => false end) (cors_headers c cred e)) <= 1)%nat.
Proof. exact acao_unique. Qed.

Theorem c13_credentials : forall c cred e, In ACAC (cors_headers c cred e) <-> cred = true /\ disabled c = false.
Proof. exact credentials_iff. Qed.

(* empty allow-list: no check, no CORS header at all *)
Theorem c13_disabled : forall (S R : Type) c cred e (refusal : R) (rest : S -> S * R) st, disabled c = true ->
  with_gate c e refusal rest st = rest st /\ cors_headers c cred e = [].
Proof. exact @disabled_nothing. Qed.

Example c13_nonvacuous :
  let e := {| e_scheme := [104]; e_host := Some [120]; e_xproto := None; e_xhost := None; e_origin := Some [101]; e_options := false; e_acrh := None |} in
  gate_refuses CDefault e = true /\ gate_refuses (CList []) e = false /\ gate_refuses CStar e = false.
Proof. exact gate_nonvacuous. Qed.

Print Assumptions c13_gate_first.
Print Assumptions c13_gate_iff.
Print Assumptions c13_no_origin_unaffected.
Print Assumptions c13_allowed_sets.
Print Assumptions c13_default_origins.
Print Assumptions c13_acao_sound.
Print Assumptions c13_acao_once.
Print Assumptions c13_credentials.
Print Assumptions c13_disabled.
