(* C02 — payload framing is separator-exact, order-preserving and bounded.
   Model: theories/Payload.v (payload.py) on top of Packet.v.  parse_qs (the 'd=' form) is an oracle (O3). *)
From Coq Require Import NArith List Bool.
Import ListNotations.
From EIO Require Import Sid Base64 Packet PacketProofs Payload PayloadProofs.
Open Scope N_scope.

Section C02.
  Variable J : Type.
  Variable jkind : J -> kind.
  Variable dumps : J -> text.
  Variable loads : text -> lres J.
  Variable digit : N -> option N.
  Variable form_d : text -> option text.

  (* exactly the text-channel encodings joined by single U+001E separators *)
  Theorem c02_encode_spec : forall ps, payload_encode J dumps ps = join_sep (map (encode_text J dumps) ps).
  Proof. exact (encode_spec J dumps). Qed.

  (* decoding returns the same packets in the same order whenever no text payload contains U+001E and the list
     is within the limit.  Hypotheses O1/O2 as in C01, and json.dumps output never contains a raw U+001E *)
  Theorem c02_roundtrip :
    (forall t, t < 10 -> digit (48 + t) = Some t) ->
    (forall v, jkind v = KArr \/ jkind v = KObj -> loads (dumps v) = LVal v) ->
    loads [] = LValueError ->
    (forall v, nosep (dumps v)) ->
    forall limit ps, Forall (sendable J jkind loads) ps -> (length ps <= limit)%nat ->
    payload_decode J jkind loads digit form_d limit (payload_encode J dumps ps) = POk (map (expected J jkind loads) ps).
  Proof. exact (roundtrip J jkind dumps loads digit form_d). Qed.

  (* the form-encoded body decodes to the same packets as the payload it carries (O3: form_d returns field d) *)
  Theorem c02_form_variant : forall limit body x, x <> [] -> starts_d_eq body = true -> form_d body = Some x ->
    starts_d_eq x = false ->
    payload_decode J jkind loads digit form_d limit body = payload_decode J jkind loads digit form_d limit x.
  Proof. exact (form_variant J jkind loads digit form_d). Qed.

  (* more segments than the limit: refused as a whole, whatever the segments contain *)
  Theorem c02_limit : forall limit body b, body <> [] -> unform form_d body = Some b ->
    (limit < length (split_sep b))%nat -> payload_decode J jkind loads digit form_d limit body = PErr TooMany.
  Proof. exact (limit_refuses J jkind loads digit form_d). Qed.

  (* a successful decode decoded every segment, in order, within the limit; one failing segment fails the body *)
  Theorem c02_all_or_nothing : forall limit body,
    (forall l, payload_decode J jkind loads digit form_d limit body = POk l -> body = [] /\ l = [] \/
       exists b, unform form_d body = Some b /\ (length (split_sep b) <= limit)%nat /\
                 Forall2 (fun s p => decode J jkind loads digit (WText s) = DOk (fst (fst p)) (snd (fst p)) (snd p)) (split_sep b) l) /\
    (forall b s, body <> [] -> unform form_d body = Some b ->
       In s (split_sep b) -> decode J jkind loads digit (WText s) = DErr ->
       exists e, payload_decode J jkind loads digit form_d limit body = PErr e).
  Proof. exact (all_or_nothing J jkind loads digit form_d). Qed.
End C02.

(* splitting inverts joining on separator-free segments (pure list fact used by the round trip) *)
Theorem c02_split_join : forall segs, segs <> [] -> Forall nosep segs -> split_sep (join_sep segs) = segs.
Proof. exact split_join. Qed.

Print Assumptions c02_encode_spec.
Print Assumptions c02_roundtrip.
Print Assumptions c02_form_variant.
Print Assumptions c02_limit.
Print Assumptions c02_all_or_nothing.
Print Assumptions c02_split_join.
