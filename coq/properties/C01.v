(* C01 — packet encoding is the Engine.IO v4 wire form and decoding inverts it.
   Model: theories/Packet.v, Base64.v (packet.py, json.py).  JSON is the standard library: J, jkind, dumps, loads
   and digit are universally quantified, the facts used about them are explicit hypotheses (O1, O2 of DESIGN.md). *)
From Coq Require Import NArith List Bool.
Import ListNotations.
From EIO Require Import Sid Base64 Base64Proofs Packet PacketProofs.
Open Scope N_scope.

Section C01.
  Variable J : Type.
  Variable jkind : J -> kind.
  Variable dumps : J -> text.
  Variable loads : text -> lres J.
  Variable digit : N -> option N.

  (* one type digit followed by the text / compact JSON / nothing; binary MESSAGE data raw or 'b' + base64 *)
  Theorem c01_wire_form : forall ty d p b64, ty < 10 -> mk_packet ty d = Some p ->
    encode_pure J dumps b64 p =
      match d with
      | DBin b => if b64 then WText (98 :: b64encode b) else WBin b
      | DNone => WText [48 + ty]
      | DText s => WText ((48 + ty) :: s)
      | DJson v => WText ((48 + ty) :: dumps v)
      end.
  Proof. exact (wire_form J dumps). Qed.

  (* decoding the representation returns the same type and the canonical payload (JSON look-alike rule = canon),
     for both channel kinds.  Hypotheses: int() of an ASCII digit (O2); json round trip on arrays and objects (O1);
     json.loads('') fails; and loads does not die with a non-ValueError on the text (RecursionError on absurd nesting) *)
  Theorem c01_decode_encode :
    (forall t, t < 10 -> digit (48 + t) = Some t) ->
    (forall v, jkind v = KArr \/ jkind v = KObj -> loads (dumps v) = LVal v) ->
    loads [] = LValueError ->
    forall ty d p b64, ty < 10 -> accepted J jkind d -> mk_packet ty d = Some p ->
    (forall s, d = DText s -> loads s <> LOther) ->
    decode J jkind loads digit (encode_pure J dumps b64 p) = DOk ty (canon J jkind loads d) (is_bin d).
  Proof. exact (decode_encode J jkind dumps loads digit). Qed.

  (* binary payloads only for MESSAGE; decoding never reports a binary packet of another type *)
  Theorem c01_binary_only_message :
    (forall ty b, ty <> MESSAGE -> @mk_packet J ty (DBin b) = None) /\
    (forall w ty d, decode J jkind loads digit w = DOk ty d true -> ty = MESSAGE /\ exists b, d = DBin b) /\
    (forall w ty d bin, decode J jkind loads digit w = DOk ty d bin -> bin = is_bin d).
  Proof.
    exact (conj (binary_only_message_ctor J) (conj (binary_only_message_decode J jkind loads digit) (decode_binary_flag J jkind loads digit))).
  Qed.

  (* any sequence of encode calls on one unmodified packet object: the i-th call returns the representation of
     the channel kind asked for by the i-th call *)
  Theorem c01_cache_sequence : forall p flags,
    encode_seq J dumps {| o_pkt := p; o_cache := None |} flags = map (fun f => encode_pure J dumps f p) flags.
  Proof. exact (cache_sequence J dumps). Qed.
End C01.

(* standard base64 round trip, no oracle *)
Theorem c01_b64_roundtrip : forall bs, bytes_ok bs -> b64decode (b64encode bs) = Some bs.
Proof. exact b64_roundtrip. Qed.

(* the pre-fix encode (cache consulted for binary packets too) violated c01_cache_sequence: concrete witness *)
Theorem c01_cache_sequence_prefix_refuted :
  let p := {| ptype := MESSAGE; pdat := @DBin unit [0; 1] |} in
  encode_seq_old unit (fun _ => []) {| o_pkt := p; o_cache := None |} [false; true]
  <> map (fun f => encode_pure unit (fun _ => []) f p) [false; true].
Proof. exact cache_sequence_old_refuted. Qed.

Print Assumptions c01_wire_form.
Print Assumptions c01_decode_encode.
Print Assumptions c01_binary_only_message.
Print Assumptions c01_cache_sequence.
Print Assumptions c01_b64_roundtrip.
Print Assumptions c01_cache_sequence_prefix_refuted.
