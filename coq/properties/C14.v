(* C14 — inbound size and volume limits.  Model: Payload.v (packet count), Server.v (the body classes BTooLong / BUndecodable
   and the oversize frame FOver are produced by the harness from the declared length / frame length against the limit). *)
From Coq Require Import NArith List Bool.
Import ListNotations.
From EIO Require Import Packet Payload PayloadProofs Server ServerInv ServerProofs ServerCor.
Open Scope N_scope.

(* no handler receives data from a POST declared larger than the limit (or undecodable): no message event at all *)
Theorem c14_oversize_post_no_message : forall cfg me r q, r_method q = MPost -> r_body q = BTooLong \/ r_body q = BUndecodable ->
  outs_all not_msg (handle_request cfg me r q).
Proof. exact post_unreadable_no_message. Qed.

(* at most `limit` packets of one body are ever processed: more segments than the limit is refused before any packet is decoded *)
Theorem c14_packet_count : forall J jkind loads digit form_d limit body b, body <> [] -> unform form_d body = Some b ->
  (limit < length (split_sep b))%nat -> payload_decode J jkind loads digit form_d limit body = PErr TooMany.
Proof. exact limit_refuses. Qed.

(* ... and a successful decode has at most `limit` packets *)
Theorem c14_decoded_within_limit : forall J jkind loads digit form_d limit body l,
  payload_decode J jkind loads digit form_d limit body = POk l -> (length l <= limit)%nat.
Proof. exact decoded_within_limit. Qed.

Print Assumptions c14_oversize_post_no_message.
Print Assumptions c14_packet_count.
Print Assumptions c14_decoded_within_limit.
